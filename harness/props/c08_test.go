package props

import (
	"fmt"
	"regexp"
	"testing"

	"github.com/herohde/morlock/pkg/board"
	"pgregory.net/rapid"
	"verifharness/bridge"
	"verifharness/gen"
	"verifharness/oracle"
	"verifharness/stats"
)

// histOp is one operation of a history program over a set of boards.
type histOp struct {
	Op    string `json:"op"` // push | illegal | pop | fork | probe (push;pop;push)
	Board int    `json:"board"`
	Move  string `json:"move,omitempty"`
}

type histCase struct {
	FEN string   `json:"fen"`
	Ops []histOp `json:"ops"`
}

// snap is everything a game board reports.
type snap struct {
	Pos        board.Position
	Turn       board.Color
	Hash       board.ZobristHash
	NoProgress int
	Ply, Full  int
	CastW      bool
	CastB      bool
	Last       board.Move
	LastOK     bool
	Second     board.Move
	SecondOK   bool
	Moved1     board.Bitboard
	Moved3     board.Bitboard
	MovedAll   board.Bitboard
	Str        string
	Drawn      bool
}

var resultRe = regexp.MustCompile(`result=.*\}$`)

func takeSnap(b *board.Board) snap {
	s := snap{
		Pos: *b.Position(), Turn: b.Turn(), Hash: b.Hash(), NoProgress: b.NoProgress(), Ply: b.Ply(), Full: b.FullMoves(),
		CastW: b.HasCastled(board.White), CastB: b.HasCastled(board.Black),
		Moved1: b.HasMoved(1), Moved3: b.HasMoved(3), MovedAll: b.HasMoved(1000),
		Str:   resultRe.ReplaceAllString(b.String(), "result=*}"),
		Drawn: b.Result().Outcome == board.Draw,
	}
	s.Last, s.LastOK = b.LastMove()
	s.Second, s.SecondOK = b.SecondToLastMove()
	return s
}

func diffSnap(got, want snap, ignoreDrawn bool) string {
	if ignoreDrawn {
		got.Drawn = want.Drawn
	}
	if got == want {
		return ""
	}
	switch {
	case got.Pos != want.Pos:
		return fmt.Sprintf("position %v, expected %v", &got.Pos, &want.Pos)
	case got.Turn != want.Turn:
		return "side to move"
	case got.Hash != want.Hash:
		return fmt.Sprintf("hash %x, expected %x", uint64(got.Hash), uint64(want.Hash))
	case got.NoProgress != want.NoProgress:
		return fmt.Sprintf("half-move clock %d, expected %d", got.NoProgress, want.NoProgress)
	case got.Ply != want.Ply:
		return fmt.Sprintf("ply %d, expected %d", got.Ply, want.Ply)
	case got.Full != want.Full:
		return fmt.Sprintf("full moves %d, expected %d", got.Full, want.Full)
	case got.CastW != want.CastW || got.CastB != want.CastB:
		return fmt.Sprintf("has-castled flags %v/%v, expected %v/%v", got.CastW, got.CastB, want.CastW, want.CastB)
	case got.Last != want.Last || got.LastOK != want.LastOK:
		return fmt.Sprintf("last move %v, expected %v", got.Last, want.Last)
	case got.Second != want.Second || got.SecondOK != want.SecondOK:
		return fmt.Sprintf("second-to-last move %v, expected %v", got.Second, want.Second)
	case got.Moved1 != want.Moved1 || got.Moved3 != want.Moved3 || got.MovedAll != want.MovedAll:
		return "moved-piece query"
	case got.Drawn != want.Drawn:
		return fmt.Sprintf("drawn=%v, expected %v", got.Drawn, want.Drawn)
	default:
		return fmt.Sprintf("String() %q, expected %q", got.Str, want.Str)
	}
}

type modelBoard struct {
	b     *board.Board
	g     *oracle.Game
	stack []snap
	floor int // may not pop to a stack height below this (shared past)
}

var checkC08 = def("C08/history", func(c histCase) error {
	st, err := oracle.ParseFEN(c.FEN)
	if err != nil {
		return fmt.Errorf("case: %v", err)
	}
	root := &modelBoard{b: bridge.Board(zt0, st), g: oracle.NewGame(st), floor: 1}
	root.stack = []snap{takeSnap(root.b)}
	boards := []*modelBoard{root}
	var labels []string
	maxNest, popsAtNest2 := 0, 0

	// positions handed out by a board are values of the game: once reached, a position object
	// never changes, whatever is taken back or played afterwards on any board
	type keptPos struct {
		p    *board.Position
		v    board.Position
		step int
	}
	var kept []keptPos
	keptSeen := map[*board.Position]bool{}
	checkKept := func(step int, op histOp) error {
		for _, k := range kept {
			if *k.p != k.v {
				return fmt.Errorf("step %d (%v): the position object a board handed out at step %d (%v) has changed since: it now reads %v", step, op, k.step, &k.v, k.p)
			}
		}
		return nil
	}
	invariant := func(step int, op histOp, popped *modelBoard) error {
		if err := checkKept(step, op); err != nil {
			return err
		}
		for _, mb := range boards {
			if p := mb.b.Position(); !keptSeen[p] && len(kept) < 400 {
				keptSeen[p] = true
				kept = append(kept, keptPos{p, *p, step})
			}
		}
		for i, mb := range boards {
			top := mb.stack[len(mb.stack)-1]
			got := takeSnap(mb.b)
			ignore := false
			if mb == popped {
				// a take-back leaves a not-drawn result, whatever the position returned to had been
				// flagged with when it was first reached (a legal move was played from it)
				if got.Drawn {
					return fmt.Errorf("step %d (%v): board %d reports a drawn result (%v) right after a take-back (before the move: drawn=%v)", step, op, i, mb.b.Result(), top.Drawn)
				}
				if top.Drawn {
					labels = append(labels, "take-back-onto-a-position-that-was-flagged-drawn")
				}
				ignore = true
			}
			if d := diffSnap(got, top, ignore); d != "" {
				who := "the board operated on"
				if i != op.Board {
					who = "ANOTHER board"
				}
				return fmt.Errorf("step %d (%v): board %d (%s) reports %s", step, op, i, who, d)
			}
			if mb == popped {
				mb.stack[len(mb.stack)-1].Drawn = got.Drawn
			}
			if got := bridge.OPos(mb.b.Position(), mb.b.Turn()); got != mb.g.Cur().Pos {
				return fmt.Errorf("step %d (%v): board %d at %s, model at %s", step, op, i, got.KeyFEN(), mb.g.Cur().Pos.KeyFEN())
			}
		}
		return nil
	}

	push := func(mb *modelBoard, step int, mv string) error {
		om, ok := mb.g.Cur().Pos.FindMove(mv)
		if !ok {
			return fmt.Errorf("case: step %d move %s not legal", step, mv)
		}
		if _, err := pushOracleMove(mb.b, om); err != nil {
			return fmt.Errorf("step %d: %v", step, err)
		}
		mb.g.Push(om)
		mb.stack = append(mb.stack, takeSnap(mb.b))
		if err := judgeResult(mb.b, mb.g, fmt.Sprintf("step %d (%s)", step, mv)); err != nil {
			return err
		}
		if n := len(mb.stack) - mb.floor; n > maxNest {
			maxNest = n
		}
		return nil
	}
	pop := func(mb *modelBoard, step int) error {
		if _, ok := mb.b.PopMove(); !ok {
			return fmt.Errorf("step %d: PopMove refused with %d moves to take back", step, len(mb.stack)-1)
		}
		mb.g.Pop()
		mb.stack = mb.stack[:len(mb.stack)-1]
		return nil
	}

	for step, op := range c.Ops {
		if op.Board < 0 || op.Board >= len(boards) {
			return fmt.Errorf("case: step %d board %d does not exist", step, op.Board)
		}
		mb := boards[op.Board]
		var popped *modelBoard
		switch op.Op {
		case "push":
			if err := push(mb, step, op.Move); err != nil {
				return err
			}
		case "probe": // push; pop; push must give the same result both times
			// a draw flag already set before the move is carried by the first push only (it is
			// cleared by the take-back, which the property leaves open): not compared then
			stickyBefore := mb.stack[len(mb.stack)-1].Drawn
			if err := push(mb, step, op.Move); err != nil {
				return err
			}
			first := mb.stack[len(mb.stack)-1]
			if err := pop(mb, step); err != nil {
				return err
			}
			if err := invariant(step, op, mb); err != nil {
				return fmt.Errorf("%v [after push;pop]", err)
			}
			if err := push(mb, step, op.Move); err != nil {
				return err
			}
			if d := diffSnap(mb.stack[len(mb.stack)-1], first, stickyBefore); d != "" {
				return fmt.Errorf("step %d: %s played again after being taken back gives a different state: %s", step, op.Move, d)
			}
			labels = append(labels, "probe")
		case "illegal":
			var found *oracle.Move
			for _, m := range mb.g.Cur().Pos.PseudoLegal() {
				if m.String() == op.Move && !mb.g.Cur().Pos.IsLegal(m) {
					mm := m
					found = &mm
				}
			}
			if found == nil {
				return fmt.Errorf("case: step %d %s is not a pseudo-legal illegal move", step, op.Move)
			}
			if rm, ok := bridge.FindRepoMove(mb.b.Position(), mb.b.Turn(), *found); ok {
				if mb.b.PushMove(rm) {
					return fmt.Errorf("step %d: illegal move %s accepted", step, op.Move)
				}
			}
			labels = append(labels, "illegal-refused")
		case "pop":
			if len(mb.stack) <= mb.floor {
				return fmt.Errorf("case: step %d pops into the shared past", step)
			}
			if len(mb.stack)-mb.floor >= 2 {
				popsAtNest2++
			}
			if err := pop(mb, step); err != nil {
				return err
			}
			popped = mb
		case "pop-at-root":
			if len(mb.stack) != 1 {
				return fmt.Errorf("case: step %d not at root", step)
			}
			if _, ok := mb.b.PopMove(); ok {
				return fmt.Errorf("step %d: PopMove succeeded on a board without moves", step)
			}
		case "fork":
			h := len(mb.stack)
			nb := &modelBoard{b: mb.b.Fork(), g: mb.g.Clone(), floor: h}
			nb.stack = append(nb.stack, mb.stack...)
			if mb.floor < h {
				mb.floor = h
			}
			boards = append(boards, nb)
			labels = append(labels, "fork")
		default:
			return fmt.Errorf("case: unknown op %q", op.Op)
		}
		if err := invariant(step, op, popped); err != nil {
			return err
		}
	}
	// classification
	opsOn := map[int]int{}
	for _, op := range c.Ops {
		if op.Op != "fork" {
			opsOn[op.Board]++
		}
	}
	forkBoth := len(boards) > 1 && len(opsOn) > 1
	for _, mb := range boards[1:] {
		for _, f := range mb.g.Fired[min(len(mb.g.Fired), mb.floor):] {
			for _, r := range f {
				if r == oracle.RuleRep3 {
					labels = append(labels, "rep-across-fork")
				}
			}
		}
	}
	if popsAtNest2 >= 2 {
		labels = append(labels, "nested-pops")
	}
	if forkBoth {
		labels = append(labels, "fork-both-active")
	}
	nt := popsAtNest2 >= 2 || forkBoth
	stats.Case("C08/history", stats.FP(c.FEN, fmt.Sprint(c.Ops)), nt, dedup(labels)...)
	stats.Note("C08/history", "ops", int64(len(c.Ops)))
	_ = maxNest
	return nil
})

func genHistCase(t *rapid.T) histCase {
	st := gen.Start(t)
	if rapid.Bool().Draw(t, "clock") {
		st.Half = rapid.SampledFrom([]int{0, 50, 96, 98}).Draw(t, "half")
	}
	c := histCase{FEN: st.FEN()}
	type mb struct {
		g      *oracle.Game
		height int
		floor  int
	}
	boards := []*mb{{g: oracle.NewGame(st), height: 1, floor: 1}}
	pol := gen.DrawPolicy(t)
	if rapid.Bool().Draw(t, "shuffle") {
		pol = gen.Policy{0, 1, 0, 0, 1, 1, 0, 12, 0, 6}
	}
	n := rapid.IntRange(1, 120).Draw(t, "nops")
	for i := 0; i < n; i++ {
		bi := 0
		if len(boards) > 1 {
			bi = rapid.IntRange(0, len(boards)-1).Draw(t, "board")
		}
		b := boards[bi]
		k := rapid.IntRange(0, 19).Draw(t, "opkind")
		switch {
		case k <= 2 && b.height > b.floor:
			b.g.Pop()
			b.height--
			c.Ops = append(c.Ops, histOp{Op: "pop", Board: bi})
		case k == 3 && len(boards) < 4:
			nb := &mb{g: b.g.Clone(), height: b.height, floor: b.height}
			if b.floor < b.height {
				b.floor = b.height
			}
			boards = append(boards, nb)
			c.Ops = append(c.Ops, histOp{Op: "fork", Board: bi})
		case k == 4:
			var ill []oracle.Move
			for _, m := range b.g.Cur().Pos.PseudoLegal() {
				if !b.g.Cur().Pos.IsLegal(m) {
					ill = append(ill, m)
				}
			}
			if len(ill) > 0 {
				m := ill[rapid.IntRange(0, len(ill)-1).Draw(t, "ill")]
				c.Ops = append(c.Ops, histOp{Op: "illegal", Board: bi, Move: m.String()})
			} else if b.height == 1 && b.floor == 1 {
				c.Ops = append(c.Ops, histOp{Op: "pop-at-root", Board: bi})
			}
		default:
			m, ok := gen.PickMove(t, b.g, pol)
			if !ok {
				if b.height > b.floor {
					b.g.Pop()
					b.height--
					c.Ops = append(c.Ops, histOp{Op: "pop", Board: bi})
				}
				continue
			}
			op := "push"
			if k == 5 || k == 6 {
				op = "probe"
			}
			b.g.Push(m)
			b.height++
			c.Ops = append(c.Ops, histOp{Op: op, Board: bi, Move: m.String()})
		}
	}
	return c
}

func TestC08_history(t *testing.T) {
	runRapid(t, "C08/history", 100000, genHistCase, func(c histCase) error {
		stats.Sample("C08/history", c)
		return checkC08(c)
	})
}
