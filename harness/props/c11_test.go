package props

import (
	"context"
	"fmt"
	"sync"
	"testing"

	"github.com/herohde/morlock/pkg/board"
	"github.com/herohde/morlock/pkg/eval"
	"github.com/herohde/morlock/pkg/search"
	"pgregory.net/rapid"
	"verifharness/bridge"
	"verifharness/gen"
	"verifharness/oracle"
	"verifharness/refsearch"
	"verifharness/stats"
)

// recTT wraps the real table: it records every store together with the game state it was
// made in, and classifies probe hits.
type recTT struct {
	search.TranspositionTable
	mu     sync.Mutex
	cur    *board.Board // board of the running search (state at the moment of the call)
	epoch  int
	stores []ttStore
	wrote  map[board.ZobristHash]int // hash -> epoch of last successful write
	// statistics
	hitsEarlier, hitsSame, exactHitsEarlier int
	halted                                  func() bool // for C12: has cancellation been reported yet?
}

type ttStore struct {
	State    oracle.State
	Hash     board.ZobristHash
	Bound    search.Bound
	Depth    int
	Score    eval.Score
	Move     board.Move
	Epoch    int
	Accepted bool
	Late     bool // made after cancellation was reported (C12)
}

func newRecTT(bytes uint64) *recTT {
	return &recTT{TranspositionTable: search.NewTranspositionTable(context.Background(), bytes), wrote: map[board.ZobristHash]int{}}
}

func (r *recTT) Read(hash board.ZobristHash) (search.Bound, int, eval.Score, board.Move, bool) {
	b, d, s, m, ok := r.TranspositionTable.Read(hash)
	if ok {
		r.mu.Lock()
		if e, seen := r.wrote[hash]; seen && e < r.epoch {
			r.hitsEarlier++
			if b == search.ExactBound {
				r.exactHitsEarlier++
			}
		} else {
			r.hitsSame++
		}
		r.mu.Unlock()
	}
	return b, d, s, m, ok
}

func (r *recTT) Write(hash board.ZobristHash, bound search.Bound, ply, depth int, score eval.Score, move board.Move) bool {
	ok := r.TranspositionTable.Write(hash, bound, ply, depth, score, move)
	r.mu.Lock()
	defer r.mu.Unlock()
	st := ttStore{Hash: hash, Bound: bound, Depth: depth, Score: score, Move: move, Epoch: r.epoch, Accepted: ok}
	if r.cur != nil {
		st.State = oracle.State{Pos: bridge.OPos(r.cur.Position(), r.cur.Turn()), Half: r.cur.NoProgress(), Full: r.cur.FullMoves()}
	}
	if r.halted != nil && r.halted() {
		st.Late = true
	}
	r.stores = append(r.stores, st)
	if ok {
		r.wrote[hash] = r.epoch
	}
	return ok
}

// validateStore: an exact entry must be the true search value of that position at that depth.
func validateStore(st ttStore, rcfg refsearch.Config) (bool, error) {
	if st.Bound != search.ExactBound {
		return false, nil
	}
	g := oracle.NewGame(st.State)
	b := bridge.Board(zt0, st.State)
	rcfg.Budget = 30_000
	ref, err := refsearch.Search(rcfg, g, b, st.Depth)
	if err == refsearch.ErrBudget {
		return false, nil
	}
	if err != nil {
		return false, err
	}
	got, ok := refsearch.FromScore(st.Score)
	if !ok {
		return true, fmt.Errorf("exact entry with invalid score %v stored for %s", st.Score, st.State.FEN())
	}
	if !sameValue(got, ref.Value) {
		return true, fmt.Errorf("exact entry (depth %d, score %v) stored for %s, whose true depth-%d value is %v", st.Depth, got, st.State.FEN(), st.Depth, ref.Value)
	}
	return true, nil
}

type ttStep struct {
	Op    string `json:"op"` // search | move | takeback | halt (a search cancelled at its N-th cancellation poll, as the engine does on stop/new position)
	Depth int    `json:"depth,omitempty"`
	Move  string `json:"move,omitempty"`
	N     int    `json:"n,omitempty"`
}

type ttCase struct {
	FEN        string   `json:"fen"`
	Moves      []string `json:"moves"`
	Config     string   `json:"config"`
	Param      int      `json:"param"`
	TableBytes uint64   `json:"table_bytes"`
	Steps      []ttStep `json:"steps"`
	Sample     []int    `json:"sample"`
}

var checkC11 = def("C11/transparent", func(c ttCase) error {
	cfg, err := findConfig(c.Config)
	if err != nil {
		return err
	}
	if !cfg.PositionDetermined {
		return fmt.Errorf("case: %s is not a position-determined configuration", c.Config)
	}
	b, g, err := buildBoard(zt0, gen.GameCase{FEN: c.FEN, Moves: c.Moves})
	if err != nil {
		return err
	}
	// pass 1: reference values along the sequence and the property's precondition
	type rootRef struct {
		ref *refsearch.Result
		fen string
	}
	var refs []rootRef
	{
		g1, b1 := g.Clone(), b.Fork()
		for i, st := range c.Steps {
			switch st.Op {
			case "move":
				om, ok := g1.Cur().Pos.FindMove(st.Move)
				if !ok {
					return fmt.Errorf("case: step %d move %s not legal", i, st.Move)
				}
				if _, err := pushOracleMove(b1, om); err != nil {
					return err
				}
				g1.Push(om)
				refs = append(refs, rootRef{})
			case "takeback":
				if _, ok := b1.PopMove(); !ok || !g1.Pop() {
					return fmt.Errorf("case: step %d takes back with no move played", i)
				}
				refs = append(refs, rootRef{})
			case "search", "halt":
				// the property's precondition: no repetition / fifty-move draw in play (a root
				// that is merely flagged for insufficient material is position-determined enough:
				// the flag only ever arises from the capture leading to it)
				for _, fired := range g1.Fired {
					for _, r := range fired {
						if r != oracle.RuleInsufficient {
							stats.Case("C11/transparent", 0, false, "discarded-repetition-or-fifty-at-root")
							return nil
						}
					}
				}
				_, rcfg := cfg.make(c.Param)
				rcfg.Budget = 40_000
				if cfg.Quiescence {
					rcfg.Budget = 10_000
				}
				ref, err := refsearch.Search(rcfg, g1.Clone(), b1.Fork(), st.Depth)
				if err == refsearch.ErrBudget {
					stats.Case("C11/transparent", 0, false, "discarded-over-budget")
					return nil
				}
				if err != nil {
					return err
				}
				if ref.SawRepetitionOrFifty {
					stats.Case("C11/transparent", 0, false, "discarded-repetition-or-fifty-in-tree")
					return nil
				}
				refs = append(refs, rootRef{ref, g1.Cur().FEN()})
			default:
				return fmt.Errorf("case: step op %q", st.Op)
			}
		}
	}
	// pass 2: the real searches, sharing one table
	rec := newRecTT(c.TableBytes)
	s, rcfg := cfg.make(c.Param)
	nsearch, halts := 0, 0
	tookBack := false
	for i, st := range c.Steps {
		if st.Op == "move" {
			om, _ := g.Cur().Pos.FindMove(st.Move)
			if _, err := pushOracleMove(b, om); err != nil {
				return err
			}
			g.Push(om)
			continue
		}
		if st.Op == "takeback" {
			b.PopMove()
			g.Pop()
			tookBack = true
			continue
		}
		ref := refs[i].ref
		sb := b.Fork()
		rec.mu.Lock()
		rec.cur, rec.epoch = sb, rec.epoch+1
		rec.mu.Unlock()
		var sctx context.Context = context.Background()
		if st.Op == "halt" {
			pc := newPollCtx(max(1, st.N))
			rec.halted = func() bool { return pc.fired }
			sctx = pc
		}
		_, score, pv, serr := s.Search(sctx, &search.Context{TT: rec}, sb, st.Depth)
		rec.halted = nil
		if st.Op == "halt" && serr == search.ErrHalted {
			halts++
			continue // nothing to compare: what matters is what it left in the table
		}
		if serr != nil {
			return fmt.Errorf("step %d: search failed: %v", i, serr)
		}
		nsearch++
		where := fmt.Sprintf("step %d (search #%d of the sequence, depth %d, %s, table %d bytes) at %s", i, nsearch, st.Depth, c.Config, c.TableBytes, refs[i].fen)
		got, ok := refsearch.FromScore(score)
		if !ok {
			return fmt.Errorf("%s: invalid score %v", where, score)
		}
		if !sameValue(got, ref.Value) {
			// say what the same search returns without a table
			_, plain, _, _ := s.Search(context.Background(), search.EmptyContext, b.Fork(), st.Depth)
			return fmt.Errorf("%s: with the table the search returns %v; without a table %v; exhaustive value %v", where, got, plain, ref.Value)
		}
		if ref.RootLegal > 0 && len(ref.RootMoves) > 0 {
			if len(pv) == 0 {
				return fmt.Errorf("%s: no principal variation although the root has %d legal moves", where, ref.RootLegal)
			}
			v, ok := ref.RootMoves[bridge.KeyOfRepo(pv[0])]
			if !ok {
				return fmt.Errorf("%s: principal variation starts with %s, which is not a legal explored move", where, bridge.Text(pv[0]))
			}
			if refsearch.Cmp(v, ref.Value) != 0 {
				return fmt.Errorf("%s: principal variation starts with %s worth %v, best is %v", where, bridge.Text(pv[0]), v, ref.Value)
			}
		}
	}
	// every exact entry stored must be true: validate a drawn sample
	var exact []ttStore
	for _, st := range rec.stores {
		if st.Bound == search.ExactBound {
			exact = append(exact, st)
		}
	}
	validated := 0
	for _, st := range rec.stores {
		if st.Late && st.Bound == search.ExactBound && validated < 24 {
			done, err := validateStore(st, rcfg)
			if err != nil {
				return fmt.Errorf("%s, table %d bytes: store made by a halted search after cancellation was reported: %v", c.Config, c.TableBytes, err)
			}
			if done {
				validated++
			}
		}
	}
	if len(exact) > 0 {
		for _, k := range c.Sample {
			st := exact[((k%len(exact))+len(exact))%len(exact)]
			done, err := validateStore(st, rcfg)
			if err != nil {
				return fmt.Errorf("%s, table %d bytes: %v", c.Config, c.TableBytes, err)
			}
			if done {
				validated++
			}
		}
	}
	labels := []string{"cfg:" + c.Config, fmt.Sprintf("table:%d", c.TableBytes)}
	if rec.exactHitsEarlier > 0 {
		labels = append(labels, "exact-hit-from-earlier-search")
	}
	if rec.hitsSame > 0 {
		labels = append(labels, "hit-within-search")
	}
	moved := false
	for _, st := range c.Steps {
		if st.Op == "move" {
			moved = true
		}
	}
	if moved {
		labels = append(labels, "successive-positions")
	}
	if halts > 0 {
		labels = append(labels, "halted-search-in-sequence")
	}
	if tookBack {
		labels = append(labels, "take-back-in-sequence")
	}
	stats.Case("C11/transparent", stats.FP(c.FEN, fmt.Sprint(c.Moves), c.Config, c.Param, c.TableBytes, fmt.Sprint(c.Steps)), rec.exactHitsEarlier > 0 || rec.hitsSame > 0, labels...)
	stats.Note("C11/transparent", "searches", int64(nsearch))
	stats.Note("C11/transparent", "exact_stores", int64(len(exact)))
	stats.Note("C11/transparent", "exact_stores_validated", int64(validated))
	stats.Note("C11/transparent", "probe_hits_from_earlier_search", int64(rec.hitsEarlier))
	return nil
})

var tableSizes = []uint64{32, 64, 256, 4096, 1 << 16, 4 << 20}

func positionDeterminedConfigs() []searchConfig {
	var ret []searchConfig
	for _, c := range abConfigs {
		if c.PositionDetermined {
			ret = append(ret, c)
		}
	}
	return ret
}

func genTTCase(t *rapid.T) ttCase {
	cfgs := positionDeterminedConfigs()
	cfg := cfgs[rapid.IntRange(0, len(cfgs)-1).Draw(t, "config")]
	var gc gen.GameCase
	var g *oracle.Game
	switch rapid.IntRange(0, 5).Draw(t, "rootkind") {
	case 0:
		gc, g = gen.Play(t, matingEnding(t), 2, gen.Policy{1, 1, 1, 1, 1, 1, 1, 1, 1, 1})
	case 1, 2:
		gc, g = gen.Play(t, gen.Start(t), 60, gen.Policy{8, 2, 4, 4, 2, 1, 8, 0, 1, 1}) // sparse boards
	default:
		gc, g = gen.Game(t, 16)
	}
	c := ttCase{FEN: gc.FEN, Moves: gc.Moves, Config: cfg.Name, Param: rapid.IntRange(2, 9).Draw(t, "param"),
		TableBytes: rapid.SampledFrom(tableSizes).Draw(t, "table")}
	d := estimateDepth(g, cfg, 4, 5000)
	g = g.Clone()
	pol := gen.Policy{2, 1, 1, 1, 2, 1, 1, 0, 3, 3}
	addMoves := func(n int) {
		for i := 0; i < n; i++ {
			m, ok := gen.PickMove(t, g, pol)
			if !ok {
				return
			}
			g.Push(m)
			c.Steps = append(c.Steps, ttStep{Op: "move", Move: m.String()})
		}
	}
	switch rapid.IntRange(0, 4).Draw(t, "pattern") {
	case 0: // iterative deepening
		for k := 1; k <= d; k++ {
			c.Steps = append(c.Steps, ttStep{Op: "search", Depth: k})
		}
		if rapid.Bool().Draw(t, "again") {
			c.Steps = append(c.Steps, ttStep{Op: "search", Depth: d})
		}
	case 1: // the same search twice, then one deeper/shallower
		c.Steps = append(c.Steps, ttStep{Op: "search", Depth: d}, ttStep{Op: "search", Depth: d})
		c.Steps = append(c.Steps, ttStep{Op: "search", Depth: rapid.IntRange(1, d).Draw(t, "d3")})
	case 2: // analyse, play on (captures preferred), take back, analyse the earlier position deeper
		c.Steps = append(c.Steps, ttStep{Op: "search", Depth: max(1, d-1)})
		before := len(g.Moves)
		pol = gen.Policy{8, 1, 2, 4, 1, 1, 4, 0, 1, 1}
		addMoves(rapid.IntRange(1, 2).Draw(t, "plies"))
		played := len(g.Moves) - before
		c.Steps = append(c.Steps, ttStep{Op: "search", Depth: max(1, d-rapid.IntRange(0, 1).Draw(t, "shallower"))})
		for k := 0; k < played; k++ {
			g.Pop()
			c.Steps = append(c.Steps, ttStep{Op: "takeback"})
			if rapid.Bool().Draw(t, "searchhere") || k == played-1 {
				c.Steps = append(c.Steps, ttStep{Op: "search", Depth: min(4, d+rapid.IntRange(0, 1).Draw(t, "deeper"))})
			}
		}
	default: // successive positions of a game
		n := rapid.IntRange(2, 4).Draw(t, "rounds")
		for i := 0; i < n; i++ {
			c.Steps = append(c.Steps, ttStep{Op: "search", Depth: max(1, d-rapid.IntRange(0, 2).Draw(t, "shallower"))})
			addMoves(rapid.IntRange(1, 2).Draw(t, "plies"))
		}
		c.Steps = append(c.Steps, ttStep{Op: "search", Depth: max(1, d-rapid.IntRange(0, 2).Draw(t, "shallower"))})
	}
	// the engine halts searches (stop, new position) and goes on with the same table
	if rapid.IntRange(0, 2).Draw(t, "withhalts") == 0 {
		var steps []ttStep
		for _, st := range c.Steps {
			if st.Op == "search" && rapid.IntRange(0, 1).Draw(t, "haltfirst") == 0 {
				steps = append(steps, ttStep{Op: "halt", Depth: min(4, st.Depth+rapid.IntRange(0, 1).Draw(t, "deeper")), N: rapid.IntRange(1, 300).Draw(t, "poll")})
			}
			steps = append(steps, st)
		}
		c.Steps = steps
	}
	for i := 0; i < 6; i++ {
		c.Sample = append(c.Sample, rapid.IntRange(0, 1<<20).Draw(t, "sample"))
	}
	return c
}

func TestC11_transparent(t *testing.T) {
	runRapid(t, "C11/transparent", 6000, genTTCase, func(c ttCase) error {
		stats.Sample("C11/transparent", c)
		return checkC11(c)
	})
}
