package props

import (
	"fmt"

	"github.com/herohde/morlock/pkg/board"
	"github.com/herohde/morlock/pkg/board/fen"
	"verifharness/bridge"
	"verifharness/gen"
	"verifharness/oracle"
)

// zt0 is the table the engine uses by default.
var zt0 = board.NewZobristTable(0)

// pushOracleMove plays the oracle move on the repo board through the repo's own annotated
// pseudo-legal move (the way Engine.Move does). Returns the repo move.
func pushOracleMove(b *board.Board, om oracle.Move) (board.Move, error) {
	rm, ok := bridge.FindRepoMove(b.Position(), b.Turn(), om)
	if !ok {
		return board.Move{}, fmt.Errorf("legal move %v is not among the engine's pseudo-legal moves in %v", om, b.Position())
	}
	if !b.PushMove(rm) {
		return rm, fmt.Errorf("legal move %v refused by PushMove in %v", om, b.Position())
	}
	return rm, nil
}

// buildBoard sets up the case on a repo board and the oracle game in lock-step.
func buildBoard(zt *board.ZobristTable, gc gen.GameCase) (*board.Board, *oracle.Game, error) {
	st, err := oracle.ParseFEN(gc.FEN)
	if err != nil {
		return nil, nil, fmt.Errorf("case: %v", err)
	}
	g := oracle.NewGame(st)
	b := bridge.Board(zt, st)
	for i, mv := range gc.Moves {
		om, ok := g.Cur().Pos.FindMove(mv)
		if !ok {
			return nil, nil, fmt.Errorf("case: move %d (%s) not legal", i, mv)
		}
		if _, err := pushOracleMove(b, om); err != nil {
			return nil, nil, fmt.Errorf("ply %d: %v", i, err)
		}
		g.Push(om)
	}
	return b, g, nil
}

var allPieces = []board.Piece{board.Pawn, board.Bishop, board.Knight, board.Rook, board.Queen, board.King}

// viewsAgree checks that every view of a position agrees with every other one.
func viewsAgree(p *board.Position) error {
	var union board.Bitboard
	for c := board.ZeroColor; c < board.NumColors; c++ {
		var col board.Bitboard
		for _, pc := range allPieces {
			bb := p.Piece(c, pc)
			if col&bb != 0 {
				return fmt.Errorf("piece sets of colour %v overlap", c)
			}
			col |= bb
			sqs := p.PieceSquares(c, pc)
			if len(sqs) != bb.PopCount() {
				return fmt.Errorf("PieceSquares/Piece disagree for %v %v", c, pc)
			}
		}
		if col != p.Color(c) {
			return fmt.Errorf("Color(%v)=%v but union of its piece sets=%v", c, p.Color(c), col)
		}
		if union&col != 0 {
			return fmt.Errorf("colour sets overlap: %v", union&col)
		}
		union |= col
	}
	if union != p.All() {
		return fmt.Errorf("All()=%v but union of colours=%v", p.All(), union)
	}
	if p.Rotated() != board.NewRotatedBitboard(p.All()) {
		return fmt.Errorf("rotated views out of step with occupancy: %v vs %v", p.Rotated(), board.NewRotatedBitboard(p.All()))
	}
	if p.Rotated().Mask() != p.All() {
		return fmt.Errorf("Rotated().Mask() != All()")
	}
	for sq := board.ZeroSquare; sq < board.NumSquares; sq++ {
		c, pc, ok := p.Square(sq)
		if ok != p.All().IsSet(sq) || ok == p.IsEmpty(sq) {
			return fmt.Errorf("Square/All/IsEmpty disagree on %v", sq)
		}
		if ok {
			if !pc.IsValid() || !p.Piece(c, pc).IsSet(sq) || !p.Color(c).IsSet(sq) {
				return fmt.Errorf("Square(%v)=%v %v but sets disagree", sq, c, pc)
			}
		}
	}
	for c := board.ZeroColor; c < board.NumColors; c++ {
		if k := p.Piece(c, board.King); k.PopCount() == 1 && p.KingSquare(c) != k.LastPopSquare() {
			return fmt.Errorf("KingSquare(%v) wrong", c)
		}
	}
	return nil
}

// attacksAgree compares IsAttacked/IsDefended for all squares and both colours with the oracle.
func attacksAgree(p *board.Position, o *oracle.Pos) error {
	for s := 0; s < 64; s++ {
		for _, white := range []bool{true, false} {
			// repo: IsAttacked(c, sq) = attacked by the opponent of c
			want := o.Attacked(s, !white)
			if got := p.IsAttacked(bridge.Color(white), bridge.Sq(s)); got != want {
				return fmt.Errorf("IsAttacked(%v, %v)=%v, geometric definition says %v in %v", bridge.Color(white), oracle.SqName(s), got, want, o.KeyFEN())
			}
			if got := p.IsDefended(bridge.Color(!white), bridge.Sq(s)); got != want {
				return fmt.Errorf("IsDefended(%v, %v)=%v, definition says %v in %v", bridge.Color(!white), oracle.SqName(s), got, want, o.KeyFEN())
			}
			// the same question restricted to some kinds of attackers: one list per (position, square),
			// derived from the position so that the case stays a pure function
			h := mix64(uint64(s)*0x9e3779b97f4a7c15 + uint64(o.Sq[s]+7) + uint64(o.Sq[(s*7+3)%64]+7)<<8)
			var list []board.Piece
			inList := map[int8]bool{}
			for k, n := 0, 1+int(h%3); k < n; k++ {
				h = mix64(h)
				kind := int8(1 + h%6)
				if !inList[kind] {
					inList[kind] = true
					list = append(list, bridge.Piece(kind))
				}
			}
			wantBy := false
			for _, from := range o.AttackersOf(s, !white) {
				k := o.Sq[from]
				if k < 0 {
					k = -k
				}
				wantBy = wantBy || inList[k]
			}
			if got := p.IsAttackedBy(bridge.Color(white), bridge.Sq(s), list); got != wantBy {
				return fmt.Errorf("IsAttackedBy(%v, %v, %v)=%v, geometric definition says %v in %v", bridge.Color(white), oracle.SqName(s), list, got, wantBy, o.KeyFEN())
			}
		}
	}
	return nil
}

// posLabels classifies a position for the generator statistics.
func posLabels(o *oracle.Pos) (labels []string, special bool) {
	ps := o.PseudoLegal()
	nlegal := 0
	for _, m := range ps {
		legal := o.IsLegal(m)
		if legal {
			nlegal++
		}
		switch m.Kind {
		case oracle.CastleK, oracle.CastleQ:
			if legal {
				labels = append(labels, "castle-legal")
			} else {
				labels = append(labels, "castle-illegal")
			}
			special = true
		case oracle.EnPassant:
			if legal {
				labels = append(labels, "ep-legal")
			} else {
				labels = append(labels, "ep-illegal")
			}
			special = true
		case oracle.Promo, oracle.CapturePromo:
			special = true
			labels = append(labels, "promo")
		}
	}
	if nlegal != len(ps) {
		special = true
		if o.InCheck(o.White) {
			labels = append(labels, "check-evasion")
		} else {
			labels = append(labels, "pin-or-king-walk")
		}
	}
	if nlegal == 0 {
		if o.InCheck(o.White) {
			labels = append(labels, "mate")
		} else {
			labels = append(labels, "stalemate")
		}
	}
	return dedup(labels), special
}

func dedup(in []string) []string {
	seen := map[string]bool{}
	var out []string
	for _, s := range in {
		if !seen[s] {
			seen[s] = true
			out = append(out, s)
		}
	}
	return out
}

// fenOf is the FEN of a game board (through the repository's encoder).
func fenOf(b *board.Board) string {
	return fen.Encode(b.Position(), b.Turn(), b.NoProgress(), b.FullMoves())
}

// wellFormed: both kings present, castling rights only with king and rook at home, an e.p.
// target only behind a pawn that can just have made a double step. (The rules model follows
// games from such positions only; the engine may accept more.)
func wellFormed(p *oracle.Pos) bool {
	if p.KingSq(true) < 0 || p.KingSq(false) < 0 {
		return false
	}
	nk := 0
	for _, pc := range p.Sq {
		if pc == oracle.King || pc == -oracle.King {
			nk++
		}
	}
	if nk != 2 {
		return false
	}
	if (p.WK && (p.Sq[oracle.E1] != oracle.King || p.Sq[oracle.H1] != oracle.Rook)) ||
		(p.WQ && (p.Sq[oracle.E1] != oracle.King || p.Sq[oracle.A1] != oracle.Rook)) ||
		(p.BK && (p.Sq[oracle.E8] != -oracle.King || p.Sq[oracle.H8] != -oracle.Rook)) ||
		(p.BQ && (p.Sq[oracle.E8] != -oracle.King || p.Sq[oracle.A8] != -oracle.Rook)) {
		return false
	}
	if p.EP >= 0 {
		f, r := oracle.File(int(p.EP)), oracle.Rank(int(p.EP))
		if p.White { // black has just played a double step: target on rank 6, pawn on rank 5
			if r != 5 || p.Sq[oracle.Sq(f, 4)] != -oracle.Pawn || p.Sq[oracle.Sq(f, 5)] != 0 || p.Sq[oracle.Sq(f, 6)] != 0 {
				return false
			}
		} else if r != 2 || p.Sq[oracle.Sq(f, 3)] != oracle.Pawn || p.Sq[oracle.Sq(f, 2)] != 0 || p.Sq[oracle.Sq(f, 1)] != 0 {
			return false
		}
	}
	for f := 0; f < 8; f++ {
		for _, r := range []int{0, 7} {
			if pc := p.Sq[oracle.Sq(f, r)]; pc == oracle.Pawn || pc == -oracle.Pawn {
				return false
			}
		}
	}
	return true
}
