package props

import (
	"fmt"
	"runtime"
	"sync"
	"sync/atomic"
	"testing"

	"github.com/herohde/morlock/pkg/board"
	"verifharness/bridge"
	"verifharness/oracle"
	"verifharness/stats"
)

// Cold start: the very first use of the board package in a process, made by several
// goroutines at once (an engine process starts its first search while the driver sets up
// positions; two engines start together). Whatever the package builds on first use must be
// complete before anybody reads it. This runs at the top of TestMain, before anything else
// has touched the repository's code; every shard of C01, C02, C06 and C07 is one trial.
// Expected answers come from the oracle alone. No random choice is involved: the inputs are
// fixed, the schedule is the operating system's.

type coldCase struct {
	FENs       []string `json:"fens"`
	Goroutines int      `json:"goroutines"`
	Seed       int64    `json:"zobrist_seed"`
}

var coldInput = coldCase{
	FENs: []string{
		"r3k2r/p1ppqpb1/bn2pnp1/3PN3/1p2P3/2N2Q1p/PPPBBPPP/R3K2R w KQkq - 0 1", // kiwipete
		"r3k2r/Pppp1ppp/1b3nbN/nP6/BBP1P3/q4N2/Pp1P2PP/R2Q1RK1 w kq - 0 1",
		"4k3/8/8/8/1b6/8/3P4/4K2R w K - 0 1",          // bishop pins the d-pawn
		"4k3/8/8/8/1b6/8/8/4K2R w K - 0 1",            // check from a bishop
		"4k3/4r3/8/8/8/8/4Q3/4K3 w - - 0 1",           // queen pinned by a rook
		"r3k3/8/8/8/8/8/8/R3K2q w Qq - 0 1",           // check from a queen along the rank
		"8/2p5/3p4/KP5r/1R3p1k/8/4P1P1/8 w - - 0 1",   // rook endgame with e.p. geometry
		"rnbq1k1r/pp1Pbppp/2p5/8/2B5/8/PPP1NnPP/RNBQK2R w KQ - 1 8",
	},
	Goroutines: 12,
	Seed:       0x5eed0c01d,
}

var coldErrs = map[string]error{} // aspect -> first error
var coldRan bool

func coldStart() {
	coldRan = true
	c := coldInput
	n := c.Goroutines
	if p := runtime.GOMAXPROCS(0); p < 2 {
		n = 2
	}
	type want struct {
		st     oracle.State
		legal  map[bridge.Key]bool
		pseudo []oracle.Move
		check  [2]bool
	}
	wants := make([]want, len(c.FENs))
	for i, f := range c.FENs {
		st := oracle.MustFEN(f)
		w := want{st: st, legal: map[bridge.Key]bool{}, pseudo: st.Pos.PseudoLegal()}
		for _, m := range st.Pos.Legal() {
			w.legal[bridge.KeyOf(m)] = true
		}
		w.check = [2]bool{st.Pos.InCheck(true), st.Pos.InCheck(false)}
		wants[i] = w
	}
	var mu sync.Mutex
	note := func(aspect string, err error) {
		mu.Lock()
		if coldErrs[aspect] == nil {
			coldErrs[aspect] = err
		}
		mu.Unlock()
	}
	var ready sync.WaitGroup
	var done sync.WaitGroup
	var start atomic.Bool
	hashes := make([][]board.ZobristHash, n)
	for g := 0; g < n; g++ {
		g := g
		ready.Add(1)
		done.Add(1)
		go func() {
			defer done.Done()
			defer func() {
				if r := recover(); r != nil {
					note("moves", fmt.Errorf("goroutine %d of %d at process start: panic: %v", g, n, r))
				}
			}()
			ready.Done()
			for !start.Load() {
			}
			zt := board.NewZobristTable(c.Seed)
			for k := range wants {
				w := &wants[(k+g)%len(wants)]
				where := fmt.Sprintf("goroutine %d of %d, first use of the package in this process, position %s", g, n, w.st.FEN())
				p, err := bridge.Position(&w.st.Pos)
				if err != nil {
					note("moves", fmt.Errorf("%s: %v", where, err))
					return
				}
				turn := bridge.Color(w.st.Pos.White)
				for _, white := range []bool{true, false} {
					idx := 1
					if white {
						idx = 0
					}
					if got := p.IsChecked(bridge.Color(white)); got != w.check[idx] {
						note("attack", fmt.Errorf("%s: IsChecked(%v)=%v, the rules say %v", where, bridge.Color(white), got, w.check[idx]))
					}
				}
				got := p.LegalMoves(turn)
				if len(got) != len(w.legal) {
					note("moves", fmt.Errorf("%s: LegalMoves lists %d moves, %d are legal", where, len(got), len(w.legal)))
				}
				for _, m := range got {
					if !w.legal[bridge.KeyOfRepo(m)] {
						note("moves", fmt.Errorf("%s: LegalMoves lists %s, which is not legal", where, bridge.Text(m)))
					}
				}
				for _, om := range w.pseudo {
					rm, ok := bridge.FindRepoMove(p, turn, om)
					if !ok {
						note("moves", fmt.Errorf("%s: the move %v is not generated", where, om))
						continue
					}
					next, accepted := p.Move(rm)
					if legal := w.legal[bridge.KeyOf(om)]; accepted != legal {
						note("successor", fmt.Errorf("%s: Position.Move(%v) accepted=%v, legal=%v", where, om, accepted, legal))
					} else if accepted {
						o, got := w.st.Pos.Make(om), bridge.OPos(next, turn.Opponent())
						if got != o {
							note("successor", fmt.Errorf("%s: after %v the engine has %s, the rules prescribe %s", where, om, got.KeyFEN(), o.KeyFEN()))
						}
					}
				}
				b := bridge.Board(zt, w.st)
				if sc := zt.Hash(b.Position(), b.Turn()); b.Hash() != sc {
					note("hash", fmt.Errorf("%s: a board set up on a table of seed %d reports Hash()=%x, from scratch %x", where, c.Seed, uint64(b.Hash()), uint64(sc)))
				}
				if hashes[g] == nil {
					hashes[g] = make([]board.ZobristHash, len(wants))
				}
				hashes[g][(k+g)%len(wants)] = b.Hash()
			}
		}()
	}
	ready.Wait()
	start.Store(true)
	done.Wait()
	for g := 1; g < n; g++ {
		for k := range wants {
			if hashes[g] != nil && hashes[0] != nil && hashes[g][k] != hashes[0][k] {
				note("hash", fmt.Errorf("two goroutines that asked for the table of seed %d at process start report hashes %x and %x for %s", c.Seed, uint64(hashes[0][k]), uint64(hashes[g][k]), wants[k].st.FEN()))
			}
		}
	}
}

// coldCheck registers the per-property view of the cold-start trial of THIS process (a replay
// runs in a fresh process, whose own cold start is what it reports).
func coldCheck(key, aspect string) func(coldCase) error {
	return def(key, func(coldCase) error {
		if !coldRan {
			return fmt.Errorf("case: the cold-start trial did not run in this process")
		}
		return coldErrs[aspect]
	})
}

var (
	checkC01Cold = coldCheck("C01/coldstart", "moves")
	checkC02Cold = coldCheck("C02/coldstart", "successor")
	checkC06Cold = coldCheck("C06/coldstart", "attack")
	checkC07Cold = coldCheck("C07/coldstart", "hash")
)

func reportCold(t *testing.T, key string, check func(coldCase) error) {
	if err := check(coldInput); err != nil {
		failCase(t, key, coldInput, err)
	}
	idx, _ := shard()
	stats.Case(key, stats.FP(key, idx), true, "cold-start-trial")
	stats.Note(key, "goroutines", int64(coldInput.Goroutines))
}

func TestC01_cold(t *testing.T) { reportCold(t, "C01/coldstart", checkC01Cold) }
func TestC02_cold(t *testing.T) { reportCold(t, "C02/coldstart", checkC02Cold) }
func TestC06_cold(t *testing.T) { reportCold(t, "C06/coldstart", checkC06Cold) }
func TestC07_cold(t *testing.T) { reportCold(t, "C07/coldstart", checkC07Cold) }
