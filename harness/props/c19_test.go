package props

import (
	"context"
	"fmt"
	"strings"
	"sync"
	"sync/atomic"
	"testing"
	"unicode/utf8"

	"github.com/herohde/morlock/pkg/board"
	"github.com/herohde/morlock/pkg/board/fen"
	"github.com/herohde/morlock/pkg/search/searchctl"
	"github.com/seekerror/stdlib/pkg/lang"
	"pgregory.net/rapid"
	"verifharness/bridge"
	"verifharness/gen"
	"verifharness/oracle"
	"verifharness/stats"
)

type textCase struct {
	Text string `json:"text"`
}

// checkC19FEN: any string: error, or a well-formed position that survives re-encoding.
var checkC19FEN = def("C19/fen", func(c textCase) error {
	pos, turn, np, fm, err := fen.Decode(c.Text)
	gate := len(strings.Split(strings.TrimSpace(c.Text), " ")) == 6
	if err != nil {
		stats.Case("C19/fen", stats.FP(c.Text), gate, "rejected")
		return nil
	}
	if pos == nil {
		return fmt.Errorf("fen.Decode(%q) returns neither an error nor a position", c.Text)
	}
	if turn != board.White && turn != board.Black {
		return fmt.Errorf("fen.Decode(%q): side %v", c.Text, turn)
	}
	if np < 0 || fm < 0 {
		return fmt.Errorf("fen.Decode(%q): negative clocks %d %d", c.Text, np, fm)
	}
	if err := viewsAgree(pos); err != nil {
		return fmt.Errorf("fen.Decode(%q) accepted an ill-formed position: %v", c.Text, err)
	}
	if ep, ok := pos.EnPassant(); ok && !ep.IsValid() {
		return fmt.Errorf("fen.Decode(%q): e.p. square %d", c.Text, ep)
	}
	re := fen.Encode(pos, turn, np, fm)
	p2, t2, np2, fm2, err := fen.Decode(re)
	if err != nil || p2 == nil {
		return fmt.Errorf("fen.Decode(%q) accepted, but its re-encoding %q does not decode: %v", c.Text, re, err)
	}
	if *p2 != *pos || t2 != turn || np2 != np || fm2 != fm {
		return fmt.Errorf("fen.Decode(%q) accepted, re-encoding %q decodes to a different position/side/clocks", c.Text, re)
	}
	stats.Case("C19/fen", stats.FP(c.Text), gate, "accepted")
	return nil
})

var unicodeDigits = []string{"٣", "８", "१", "๔", "𝟖", "²"}

var hostileFENs = []string{
	// blanks summing to 320 = 64 mod 256 with a piece after 72 blanks (square cursor wraps)
	"99999999K" + strings.Repeat("9", 27) + "5 w - - 0 1",
	"9999999999999999999999999999999995K w - - 0 1",
	strings.Repeat("8", 8) + strings.Repeat("8", 32) + " w - - 0 1",
	"8/8/8/8/8/8/8/8/" + strings.Repeat("8/", 31) + "7K w - - 0 1",
	// duplicate placement after wrapping once round
	"K" + strings.Repeat("9", 28) + "3" + "Q w - - 0 1",
	"k7/8/8/8/8/8/8/7K" + strings.Repeat("8", 32) + " w - - 0 1",
	"rnbqkbnr/pppppppp/8/8/8/8/PPPPPPPP/RNBQKBNR/" + strings.Repeat("8/", 24) + "8/8/8/8/8/8/8/RNBQKBNR w - - 0 1",
	"8/8/8/8/8/8/8/9 w - - 0 1",
	"0/8/8/8/8/8/8/8/K7 w - - 0 1",
	"KKKKKKKK/KKKKKKKK/KKKKKKKK/KKKKKKKK/KKKKKKKK/KKKKKKKK/KKKKKKKK/KKKKKKKKK w - - 0 1",
	"8/8/8/8/8/8/8/7K w - h1 0 1",
	"8/8/8/8/8/8/8/7K w KQkqKQkq a9 0 1",
	"8/8/8/8/8/8/8/7K w - - +5 +7",
	"8/8/8/8/8/8/8/7K w - - 99999999999999999999 1",
	"8/8/8/8/8/8/8/7K w - - -1 1",
	"8/8/8/8/8/8/8/7K w - - 9223372036854775808 1",
	"8/8/8/8/8/8/8/7K w - - 0 18446744073709551615",
	"8/8/8/8/8/8/8/7K w - - 4294967296 2147483648",
	"8/8/8/8/8/8/8/7K  w - - 0 1",
	"\t8/8/8/8/8/8/8/7K w - - 0 1\n",
	"8/8/8/8/8/8/8/7K W - - 0 1",
}

func genFENText(t *rapid.T) string {
	kind := rapid.IntRange(0, 11).Draw(t, "kind")
	var base string
	switch rapid.IntRange(0, 2).Draw(t, "base") {
	case 0:
		base = gen.Pool[rapid.IntRange(0, len(gen.Pool)-1).Draw(t, "pool")]
	case 1:
		base = gen.Synth(t).FEN()
	default:
		_, g := gen.Game(t, 30)
		base = g.Cur().FEN()
	}
	fields := strings.Split(base, " ")
	digits := func(n int) string {
		var sb strings.Builder
		for i := 0; i < n; i++ {
			sb.WriteString(rapid.SampledFrom([]string{"0", "1", "2", "7", "8", "9", "9", "9"}).Draw(t, "d"))
		}
		return sb.String()
	}
	switch kind {
	case 0:
		return base
	case 1: // hostile constants
		return rapid.SampledFrom(hostileFENs).Draw(t, "hostile")
	case 2: // digit runs inserted into the board field
		b := []rune(fields[0])
		at := rapid.IntRange(0, len(b)).Draw(t, "at")
		fields[0] = string(b[:at]) + digits(rapid.IntRange(1, 40).Draw(t, "n")) + string(b[at:])
	case 3: // board made of digit runs and a few pieces, total drawn around 64/320/576
		var sb strings.Builder
		total := 0
		target := rapid.SampledFrom([]int{63, 64, 65, 320, 576, 64 + 256*3}).Draw(t, "target")
		for total < target {
			if rapid.IntRange(0, 6).Draw(t, "piece") == 0 {
				sb.WriteString(rapid.SampledFrom([]string{"K", "k", "Q", "p", "N", "/"}).Draw(t, "pc"))
				total++
				continue
			}
			d := rapid.IntRange(1, 9).Draw(t, "blank")
			if total+d > target {
				d = target - total
			}
			if d == 0 {
				break
			}
			sb.WriteByte(byte('0' + d))
			total += d
		}
		fields[0] = sb.String()
	case 4: // unicode digits and letters
		b := []rune(fields[0])
		at := rapid.IntRange(0, len(b)).Draw(t, "at")
		ins := rapid.SampledFrom(append(unicodeDigits, "é", "К", "ｋ", " ", "\x00")).Draw(t, "u")
		fields[0] = string(b[:at]) + ins + string(b[at:])
	case 5: // drop or duplicate a field
		i := rapid.IntRange(0, len(fields)-1).Draw(t, "field")
		if rapid.Bool().Draw(t, "drop") {
			fields = append(fields[:i], fields[i+1:]...)
		} else {
			fields = append(fields[:i], append([]string{fields[i]}, fields[i:]...)...)
		}
	case 6: // clocks
		// incl. the boundaries of every integer width a parser might use
		fields[4] = rapid.SampledFrom([]string{"-1", "+3", "-0", "007", "1e3", "0x10", "1_000", "127", "128", "255", "256", "32768", "65536", "2147483647", "2147483648", "4294967295", "4294967296",
			"9223372036854775807", "9223372036854775808", "18446744073709551615", "18446744073709551616", "-9223372036854775808", "-9223372036854775809", "99999999999999999999", "", "x", "٣"}).Draw(t, "half")
		if rapid.Bool().Draw(t, "both") {
			fields[5] = rapid.SampledFrom([]string{"-1", "+3", "0", "1.0", "2147483648", "4294967296", "9223372036854775807", "9223372036854775808", "18446744073709551615", "18446744073709551616"}).Draw(t, "full")
		}
	case 7: // e.p. field
		fields[3] = rapid.SampledFrom([]string{"h1", "a1", "e9", "i3", "e3", "e6", "E3", "e33", "--", "é3", "a8"}).Draw(t, "ep")
	case 8: // castling / side fields
		fields[2] = rapid.SampledFrom([]string{"KQkqKQkq", "qkQK", "K-", "", "A", "kk"}).Draw(t, "castle")
		fields[1] = rapid.SampledFrom([]string{"w", "b", "W", "B", "x", "wb", ""}).Draw(t, "side")
	case 9: // separators
		sep := rapid.SampledFrom([]string{"  ", "\t", "\n", " \t"}).Draw(t, "sep")
		return strings.Join(fields, sep)
	case 10: // single character edits of a valid FEN
		b := []rune(base)
		n := rapid.IntRange(1, 4).Draw(t, "edits")
		for i := 0; i < n && len(b) > 0; i++ {
			at := rapid.IntRange(0, len(b)-1).Draw(t, "at")
			switch rapid.IntRange(0, 2).Draw(t, "edit") {
			case 0:
				b[at] = rapid.Rune().Draw(t, "r")
			case 1:
				b = append(b[:at], b[at+1:]...)
			default:
				b = append(b[:at], append([]rune{rapid.SampledFrom([]rune("0189/KkPp w-")).Draw(t, "r")}, b[at:]...)...)
			}
		}
		return string(b)
	default:
		return rapid.String().Draw(t, "arbitrary")
	}
	return strings.Join(fields, " ")
}

func TestC19_fen(t *testing.T) {
	runRapid(t, "C19/fen", 240000, func(t *rapid.T) textCase {
		return textCase{Text: genFENText(t)}
	}, func(c textCase) error {
		stats.Sample("C19/fen", c.Text)
		return checkC19FEN(c)
	})
}

// checkC19Move: ParseMove / ParseSquareStr on any string.
var checkC19Move = def("C19/move", func(c textCase) error {
	n := utf8.RuneCountInString(c.Text)
	gate := n == 4 || n == 5
	m, err := board.ParseMove(c.Text)
	if err == nil {
		if !m.From.IsValid() || !m.To.IsValid() {
			return fmt.Errorf("ParseMove(%q) accepted with squares %d %d", c.Text, m.From, m.To)
		}
		switch m.Promotion {
		case board.NoPiece, board.Queen, board.Rook, board.Bishop, board.Knight:
		default:
			return fmt.Errorf("ParseMove(%q) accepted with promotion piece %v", c.Text, m.Promotion)
		}
		// accepted text denotes these squares (letter case aside)
		if got := bridge.Text(m); got != strings.ToLower(c.Text) {
			return fmt.Errorf("ParseMove(%q) read as %q", c.Text, got)
		}
		stats.Case("C19/move", stats.FP(c.Text), gate, "move-accepted")
	} else {
		stats.Case("C19/move", stats.FP(c.Text), gate, "move-rejected")
	}
	sq, err := board.ParseSquareStr(c.Text)
	if err == nil {
		if !sq.IsValid() {
			return fmt.Errorf("ParseSquareStr(%q) accepted with square %d", c.Text, sq)
		}
		if got := oracle.SqName(bridge.OSq(sq)); got != strings.ToLower(c.Text) {
			return fmt.Errorf("ParseSquareStr(%q) read as %q", c.Text, got)
		}
		stats.Label("C19/move", "square-accepted")
	}
	return nil
})

func genMoveText(t *rapid.T) string {
	files := "abcdefghABCDEFGHi`@ "
	ranks := "1234567809 "
	promo := "qrbnQRBNkpKP x1"
	pick := func(s string, l string) string {
		r := []rune(s)
		return string(r[rapid.IntRange(0, len(r)-1).Draw(t, l)])
	}
	switch rapid.IntRange(0, 5).Draw(t, "kind") {
	case 0:
		return pick(files[:8], "f") + pick(ranks[:8], "r") + pick(files[:8], "f") + pick(ranks[:8], "r")
	case 1:
		return pick(files[:8], "f") + pick(ranks[:8], "r") + pick(files[:8], "f") + pick(ranks[:8], "r") + pick(promo, "p")
	case 2:
		n := rapid.IntRange(0, 7).Draw(t, "len")
		var sb strings.Builder
		for i := 0; i < n; i++ {
			if i%2 == 0 {
				sb.WriteString(pick(files, "f"))
			} else {
				sb.WriteString(pick(ranks, "r"))
			}
		}
		return sb.String()
	case 3:
		return pick(files, "f") + pick(ranks, "r")
	case 4:
		return rapid.StringOfN(rapid.RuneFrom([]rune("abcdefgh12345678qrbnéК٣８ ")), 0, 7, -1).Draw(t, "runes")
	default:
		return rapid.String().Draw(t, "arbitrary")
	}
}

func TestC19_move(t *testing.T) {
	runRapid(t, "C19/move", 240000, func(t *rapid.T) textCase {
		return textCase{Text: genMoveText(t)}
	}, func(c textCase) error {
		stats.Sample("C19/move", c.Text)
		return checkC19Move(c)
	})
}

// engineMoveCase: a game set up on an engine, then one arbitrary string offered as a move.
type engineMoveCase struct {
	FEN   string   `json:"fen"`
	Moves []string `json:"moves"`
	Text  string   `json:"text"`
}

var checkC19EngineMove = def("C19/enginemove", func(c engineMoveCase) error {
	ctx := context.Background()
	g, err := gen.GameCase{FEN: c.FEN, Moves: c.Moves}.Build()
	if err != nil {
		return err
	}
	e := newPlainEngine()
	if err := e.Reset(ctx, c.FEN); err != nil {
		return fmt.Errorf("Reset(%q): %v", c.FEN, err)
	}
	for i, mv := range c.Moves {
		if err := e.Move(ctx, mv); err != nil {
			return fmt.Errorf("set-up move %d (%s) rejected: %v", i, mv, err)
		}
	}
	beforeFEN, before := e.Position(), takeSnap(e.Board())
	if beforeFEN != g.Cur().FEN() {
		return fmt.Errorf("engine at %q, game at %q", beforeFEN, g.Cur().FEN())
	}
	om, legal := g.Cur().Pos.FindMove(strings.ToLower(c.Text))
	err = e.Move(ctx, c.Text)
	label := ""
	switch {
	case legal && err != nil:
		return fmt.Errorf("%q denotes the legal move %v in %s but was rejected: %v", c.Text, om, g.Cur().FEN(), err)
	case !legal && err == nil:
		return fmt.Errorf("%q is not a legal move in %s but was accepted (engine now at %s)", c.Text, g.Cur().FEN(), e.Position())
	case legal:
		g.Push(om)
		if got := e.Position(); got != g.Cur().FEN() {
			return fmt.Errorf("after %q: engine at %q, game at %q", c.Text, got, g.Cur().FEN())
		}
		label = "accepted"
	default:
		if got := e.Position(); got != beforeFEN {
			return fmt.Errorf("rejected %q changed the reported position from %q to %q", c.Text, beforeFEN, got)
		}
		if d := diffSnap(takeSnap(e.Board()), before, false); d != "" {
			return fmt.Errorf("rejected %q changed the game state: %s", c.Text, d)
		}
		label = "rejected"
		// classify near misses
		lower := strings.ToLower(c.Text)
		for _, m := range g.Cur().Pos.PseudoLegal() {
			if m.String() == lower {
				label = "rejected-pseudo-legal"
			}
		}
	}
	n := utf8.RuneCountInString(c.Text)
	stats.Case("C19/enginemove", stats.FP(c.FEN, fmt.Sprint(c.Moves), c.Text), n == 4 || n == 5, label)
	return nil
})

func genEngineMoveCase(t *rapid.T) engineMoveCase {
	gc, g := gen.Game(t, 40)
	c := engineMoveCase{FEN: gc.FEN, Moves: gc.Moves}
	p := &g.Cur().Pos
	switch rapid.IntRange(0, 7).Draw(t, "textkind") {
	case 0, 1: // a legal move, possibly in upper case
		if l := p.Legal(); len(l) > 0 {
			c.Text = l[rapid.IntRange(0, len(l)-1).Draw(t, "legal")].String()
			if rapid.IntRange(0, 3).Draw(t, "upper") == 0 {
				c.Text = strings.ToUpper(c.Text)
			}
			return c
		}
	case 2: // pseudo-legal but illegal
		var ill []oracle.Move
		for _, m := range p.PseudoLegal() {
			if !p.IsLegal(m) {
				ill = append(ill, m)
			}
		}
		if len(ill) > 0 {
			c.Text = ill[rapid.IntRange(0, len(ill)-1).Draw(t, "ill")].String()
			return c
		}
	case 3: // promotion letter on a non-promotion / missing on a promotion
		if l := p.Legal(); len(l) > 0 {
			m := l[rapid.IntRange(0, len(l)-1).Draw(t, "legal")]
			if m.Promo != 0 {
				c.Text = m.String()[:4]
			} else {
				c.Text = m.String() + rapid.SampledFrom([]string{"q", "n", "k", "p", "Q"}).Draw(t, "suffix")
			}
			return c
		}
	case 5: // a man "moving" onto a man of its own side (the king-takes-rook way of writing castling included)
		var own []int
		for sq := 0; sq < 64; sq++ {
			if pc := p.Sq[sq]; pc != 0 && (pc > 0) == p.White {
				own = append(own, sq)
			}
		}
		if len(own) >= 2 {
			a := own[rapid.IntRange(0, len(own)-1).Draw(t, "from")]
			b := own[rapid.IntRange(0, len(own)-1).Draw(t, "to")]
			// prefer king onto rook when there is one
			k := p.KingSq(p.White)
			if rapid.Bool().Draw(t, "kingfirst") && k >= 0 {
				a = k
				for _, sq := range own {
					if pc := p.Sq[sq]; pc == oracle.Rook || pc == -oracle.Rook {
						b = sq
						if rapid.Bool().Draw(t, "thisrook") {
							break
						}
					}
				}
			}
			if a != b {
				c.Text = oracle.SqName(a) + oracle.SqName(b)
				if rapid.IntRange(0, 3).Draw(t, "upper") == 0 {
					c.Text = strings.ToUpper(c.Text)
				}
				return c
			}
		}
	case 4: // the opponent's move, or a move from an empty square
		q := *p
		q.White = !q.White
		if l := q.PseudoLegal(); len(l) > 0 {
			c.Text = l[rapid.IntRange(0, len(l)-1).Draw(t, "opp")].String()
			return c
		}
	}
	c.Text = genMoveText(t)
	return c
}

func TestC19_enginemove(t *testing.T) {
	runRapid(t, "C19/enginemove", 48000, genEngineMoveCase, func(c engineMoveCase) error {
		stats.Sample("C19/enginemove", c)
		return checkC19EngineMove(c)
	})
}

// Native fuzz targets (thorough tier): same oracles, coverage-guided bytes.

func fuzzReport(t *testing.T, key string, c any, err error) {
	if err != nil {
		noteFailure(key, c, err)
		emitViolation(key)
		t.Fatalf("%s: %v", key, err)
	}
}

func FuzzFEN(f *testing.F) {
	for _, s := range gen.Pool {
		f.Add(s)
	}
	for _, s := range hostileFENs {
		f.Add(s)
	}
	f.Fuzz(func(t *testing.T, s string) {
		c := textCase{Text: s}
		fuzzReport(t, "C19/fen", c, checkC19FEN(c))
	})
}

func FuzzMove(f *testing.F) {
	for _, s := range []string{"e2e4", "a7a8q", "E2E4", "h1", "a8", "e1g1", "e7e8k", "", "٣٣٣٣", "a1a1a", "i9i9"} {
		f.Add(s)
	}
	f.Fuzz(func(t *testing.T, s string) {
		c := textCase{Text: s}
		fuzzReport(t, "C19/move", c, checkC19Move(c))
	})
}

func FuzzEngineMove(f *testing.F) {
	for i, s := range []string{"e2e4", "e1g1", "a7a8q", "e5f6", "E1C1", "b7a8n", "e8g8", "0000"} {
		f.Add(uint8(i*11), s)
	}
	f.Fuzz(func(t *testing.T, pool uint8, s string) {
		c := engineMoveCase{FEN: gen.Pool[int(pool)%len(gen.Pool)], Text: s}
		fuzzReport(t, "C19/enginemove", c, checkC19EngineMove(c))
	})
}

// engineSeqCase: a sequence of move strings (legal or not) and take-backs offered to one engine.
type engineSeqCase struct {
	FEN string   `json:"fen"`
	Ops []string `json:"ops"` // "takeback" or a string offered as a move
}

// checkC19EngineSeq: at every step the string is accepted exactly when it denotes a legal move
// of the CURRENT position; rejected input and failed take-backs leave everything unchanged.
var checkC19EngineSeq = def("C19/engineseq", func(c engineSeqCase) error {
	ctx := context.Background()
	st, err := oracle.ParseFEN(c.FEN)
	if err != nil {
		return err
	}
	g := oracle.NewGame(st)
	e := newPlainEngine()
	if err := e.Reset(ctx, c.FEN); err != nil {
		return fmt.Errorf("Reset(%q): %v", c.FEN, err)
	}
	var labels []string
	lastRejected := false
	for i, op := range c.Ops {
		beforeFEN, before := e.Position(), takeSnap(e.Board())
		if strings.HasPrefix(op, "reset:") {
			// any string offered as a new position: accepted (then the game is the one it describes, in
			// standard form) or rejected (then nothing changes, history included)
			text := op[len("reset:"):]
			err := e.Reset(ctx, text)
			if err != nil {
				if e.Position() != beforeFEN {
					return fmt.Errorf("op %d: Reset(%q) was rejected (%v) but changed the reported position from %q to %q", i, text, err, beforeFEN, e.Position())
				}
				if d := diffSnap(takeSnap(e.Board()), before, false); d != "" {
					return fmt.Errorf("op %d: Reset(%q) was rejected (%v) but changed the game state: %s", i, text, err, d)
				}
				labels = append(labels, "reset-rejected")
				continue
			}
			p, turn, np, fm, derr := fen.Decode(text)
			if derr != nil || p == nil {
				return fmt.Errorf("op %d: Reset(%q) accepted a string that fen.Decode rejects: %v", i, text, derr)
			}
			if want := fen.Encode(p, turn, np, fm); e.Position() != want {
				return fmt.Errorf("op %d: after Reset(%q) the engine reports %q, the string describes %q", i, text, e.Position(), want)
			}
			st, perr := oracle.ParseFEN(e.Position())
			if perr == nil && wellFormed(&st.Pos) && st.Pos.InCheck(!st.Pos.White) {
				// accepted although the side that has just moved is in check: from here a king can be
				// captured, and what "legal move" means is anybody's guess. The case ends here.
				stats.Case("C19/engineseq", stats.FP(c.FEN, fmt.Sprint(c.Ops)), true, append(dedup(labels), "reset-accepted-with-the-opponent-in-check")...)
				return nil
			}
			if perr != nil || !wellFormed(&st.Pos) {
				// accepted, but not a position the rules model can follow (no king, rights without the rook at home, ...): the case ends here
				stats.Case("C19/engineseq", stats.FP(c.FEN, fmt.Sprint(c.Ops)), true, append(dedup(labels), "reset-accepted-unmodelled")...)
				return nil
			}
			g = oracle.NewGame(st)
			labels = append(labels, "reset-accepted")
			lastRejected = false
			continue
		}
		if op == "analyze" || op == "analyze-abandoned" {
			// an analysis in between (run to depth 1-2 and halted, or abandoned because its context is
			// already cancelled): looking at a game does not change which strings are legal moves of it
			actx, cancel := context.WithCancel(ctx)
			if op == "analyze-abandoned" {
				cancel()
			}
			if out, err := e.Analyze(actx, searchctl.Options{DepthLimit: lang.Some(uint(1 + i%2))}); err == nil {
				for range out {
				}
			}
			_, _ = e.Halt(ctx)
			cancel()
			if e.Position() != beforeFEN {
				return fmt.Errorf("op %d: %s changed the reported position from %q to %q", i, op, beforeFEN, e.Position())
			}
			if d := diffSnap(takeSnap(e.Board()), before, false); d != "" {
				return fmt.Errorf("op %d: %s changed the game state: %s", i, op, d)
			}
			labels = append(labels, op)
		} else if op == "takeback" {
			err := e.TakeBack(ctx)
			if ok := g.Pop(); ok != (err == nil) {
				return fmt.Errorf("op %d: TakeBack error=%v with %d moves played", i, err, len(g.Moves))
			}
			if lastRejected {
				labels = append(labels, "takeback-after-rejection")
			}
			lastRejected = false
		} else {
			om, legal := g.Cur().Pos.FindMove(strings.ToLower(op))
			err := e.Move(ctx, op)
			switch {
			case legal && err != nil:
				return fmt.Errorf("op %d: %q denotes the legal move %v in %s but was rejected: %v (history: %v)", i, op, om, g.Cur().FEN(), err, c.Ops[:i])
			case !legal && err == nil:
				return fmt.Errorf("op %d: %q is not a legal move in %s but was accepted; engine now at %s (history: %v)", i, op, g.Cur().FEN(), e.Position(), c.Ops[:i])
			case legal:
				g.Push(om)
				lastRejected = false
			default:
				if e.Position() != beforeFEN {
					return fmt.Errorf("op %d: rejected %q changed the reported position from %q to %q", i, op, beforeFEN, e.Position())
				}
				if d := diffSnap(takeSnap(e.Board()), before, false); d != "" {
					return fmt.Errorf("op %d: rejected %q changed the game state: %s", i, op, d)
				}
				lastRejected = true
				labels = append(labels, "rejected")
			}
		}
		if got := e.Position(); got != g.Cur().FEN() {
			return fmt.Errorf("op %d (%s): engine at %q, game at %q", i, op, got, g.Cur().FEN())
		}
	}
	labels = dedup(labels)
	stats.Case("C19/engineseq", stats.FP(c.FEN, fmt.Sprint(c.Ops)), len(labels) > 0, labels...)
	return nil
})

func TestC19_engineseq(t *testing.T) {
	runRapid(t, "C19/engineseq", 32000, func(t *rapid.T) engineSeqCase {
		st := gen.Start(t)
		c := engineSeqCase{FEN: st.FEN()}
		g := oracle.NewGame(st)
		pol := gen.DrawPolicy(t)
		for i, n := 0, rapid.IntRange(1, 14).Draw(t, "nops"); i < n; i++ {
			p := &g.Cur().Pos
			switch rapid.IntRange(0, 9).Draw(t, "opkind") {
			case 0, 1:
				if rapid.IntRange(0, 4).Draw(t, "newpos") == 0 {
					var text string
					switch rapid.IntRange(0, 3).Draw(t, "resetkind") {
					case 0:
						text = genFENText(t)
					case 1: // a well-formed string for a position that cannot arise: the side that just moved is in check
						_, gg := gen.Game(t, 40)
						st := *gg.Cur()
						st.Pos.White, st.Pos.EP = !st.Pos.White, -1
						text = st.FEN()
					default:
						text = gen.Start(t).FEN()
					}
					c.Ops = append(c.Ops, "reset:"+text)
					if st, err := oracle.ParseFEN(text); err == nil && st.FEN() == text && st.Pos.KingSq(true) >= 0 && st.Pos.KingSq(false) >= 0 {
						g = oracle.NewGame(st) // best guess for the following draws; the check re-derives the model itself
					}
					continue
				}
				if rapid.IntRange(0, 3).Draw(t, "look") == 0 {
					c.Ops = append(c.Ops, rapid.SampledFrom([]string{"analyze", "analyze-abandoned"}).Draw(t, "how"))
					continue
				}
				g.Pop()
				c.Ops = append(c.Ops, "takeback")
			case 2, 3: // the move just played again / the opponent's reply offered too early / a move of another position of this game
				if len(g.Moves) > 0 {
					c.Ops = append(c.Ops, g.Moves[rapid.IntRange(0, len(g.Moves)-1).Draw(t, "old")].String())
					if m, ok := p.FindMove(c.Ops[len(c.Ops)-1]); ok {
						g.Push(m)
					}
					continue
				}
				fallthrough
			case 4: // pseudo-legal but illegal, or the other side's move
				q := *p
				q.White = !q.White
				cands := q.PseudoLegal()
				for _, m := range p.PseudoLegal() {
					if !p.IsLegal(m) {
						cands = append(cands, m)
					}
				}
				if len(cands) > 0 {
					txt := cands[rapid.IntRange(0, len(cands)-1).Draw(t, "bad")].String()
					c.Ops = append(c.Ops, txt)
					if m, ok := p.FindMove(txt); ok {
						g.Push(m)
					}
					continue
				}
				fallthrough
			case 5:
				txt := genMoveText(t)
				c.Ops = append(c.Ops, txt)
				if m, ok := p.FindMove(strings.ToLower(txt)); ok {
					g.Push(m)
				}
			default:
				m, ok := gen.PickMove(t, g, pol)
				if !ok {
					continue
				}
				g.Push(m)
				c.Ops = append(c.Ops, m.String())
			}
		}
		return c
	}, func(c engineSeqCase) error {
		stats.Sample("C19/engineseq", c)
		return checkC19EngineSeq(c)
	})
}

// C19/parallel: decoding is a pure function of the string; several goroutines (two engines
// being set up, a driver and a book loader) decode different strings at the same time.
var checkC19Parallel = def("C19/parallel", func(texts []string) error {
	type res struct {
		ok  bool
		enc string
	}
	// what each string decodes to when nobody else is decoding
	alone := make([]res, len(texts))
	for i, s := range texts {
		if p, turn, np, fm, err := fen.Decode(s); err == nil && p != nil {
			alone[i] = res{true, fen.Encode(p, turn, np, fm)}
		}
	}
	errs := make([]error, len(texts))
	var wg sync.WaitGroup
	var start atomic.Bool
	for i := range texts {
		i := i
		wg.Add(1)
		go func() {
			defer wg.Done()
			defer func() {
				if r := recover(); r != nil {
					errs[i] = fmt.Errorf("panic: %v", r)
				}
			}()
			for !start.Load() {
			}
			for rep := 0; rep < 200 && errs[i] == nil; rep++ {
				p, turn, np, fm, err := fen.Decode(texts[i])
				got := res{}
				if err == nil && p != nil {
					got = res{true, fen.Encode(p, turn, np, fm)}
				}
				if got != alone[i] {
					errs[i] = fmt.Errorf("fen.Decode(%q) gives (accepted=%v, %q) while %d other strings are being decoded, and (accepted=%v, %q) alone", texts[i], got.ok, got.enc, len(texts)-1, alone[i].ok, alone[i].enc)
				}
			}
		}()
	}
	start.Store(true)
	wg.Wait()
	for _, err := range errs {
		if err != nil {
			return err
		}
	}
	stats.Case("C19/parallel", stats.FP(fmt.Sprint(texts)), len(texts) > 1, fmt.Sprintf("goroutines:%d", len(texts)))
	return nil
})

func TestC19_parallel(t *testing.T) {
	runRapid(t, "C19/parallel", 1600, func(t *rapid.T) []string {
		var texts []string
		for i, n := 0, rapid.IntRange(2, 8).Draw(t, "goroutines"); i < n; i++ {
			if rapid.IntRange(0, 3).Draw(t, "hostile") == 0 {
				texts = append(texts, genFENText(t))
			} else {
				_, g := gen.Game(t, 30)
				texts = append(texts, g.Cur().FEN())
			}
		}
		return texts
	}, func(texts []string) error {
		stats.Sample("C19/parallel", texts)
		return checkC19Parallel(texts)
	})
}
