package props

import (
	"context"
	"fmt"
	"testing"
	"time"

	"github.com/herohde/morlock/pkg/engine"
	"github.com/herohde/morlock/pkg/eval"
	"github.com/herohde/morlock/pkg/search"
	"github.com/herohde/morlock/pkg/search/searchctl"
	"github.com/seekerror/stdlib/pkg/lang"
	"pgregory.net/rapid"
	"verifharness/stats"
)

// C15/clock: the hard limit of a (nearly) empty clock runs out while depth 1 is still being
// searched (the harness holds depth 1 at the gate for longer than the limit). Halting never
// returns before depth 1 is complete - this holds for the clock's own halt as well: depth 1 is
// searched, reported faithfully, and only then does the analysis end.
type clockCase struct {
	searchCase       // Depth unused
	ClockMS    int64 `json:"clock_ms"` // both sides; 0 = flag fallen
	HoldMS     int   `json:"hold_ms"`  // how long depth 1 is held at the gate
	ViaEngine  bool  `json:"via_engine"`
	// Limit > 0: a depth limit is set as well (far beyond what the clock allows): the clock still rules
	Limit int `json:"depth_limit,omitempty"`
}

var checkC15Clock = def("C15/clock", func(c clockCase) error {
	b, g, cfg, err := setupSearch(c.searchCase)
	if err == errDiscard {
		stats.Case("C15/clock", 0, false, "discarded-sticky-draw-root")
		return nil
	}
	if err != nil {
		return err
	}
	ctx := context.Background()
	inner, _ := cfg.make(c.Param)
	gs := newGatedSearch(inner, 1)
	opt := searchctl.Options{TimeControl: lang.Some(searchctl.TimeControl{White: time.Duration(c.ClockMS) * time.Millisecond, Black: time.Duration(c.ClockMS) * time.Millisecond})}
	if c.Limit > 0 {
		opt.DepthLimit = lang.Some(uint(c.Limit))
	}
	var out <-chan search.PV
	var halt func() search.PV
	if c.ViaEngine {
		e := engine.New(ctx, "verif", "verif", gs)
		if err := e.Reset(ctx, c.FEN); err != nil {
			return err
		}
		for _, mv := range c.Moves {
			if err := e.Move(ctx, mv); err != nil {
				return err
			}
		}
		o, err := e.Analyze(ctx, opt)
		if err != nil {
			return err
		}
		out, halt = o, func() search.PV { pv, _ := e.Halt(ctx); return pv }
	} else {
		h, o := (&searchctl.Iterative{Root: gs}).Launch(ctx, b.Fork(), search.NoTranspositionTable{}, eval.Random{}, opt)
		out, halt = o, h.Halt
	}
	where := fmt.Sprintf("%s at %s with %d ms on both clocks (depth limit %d), depth 1 held for %d ms", c.Config, g.Cur().FEN(), c.ClockMS, c.Limit, c.HoldMS)
	var first gateEvent
	select {
	case first = <-gs.entering:
	case <-time.After(liveness):
		return fmt.Errorf("%s: the analysis never started its first iteration", where)
	}
	time.Sleep(time.Duration(c.HoldMS) * time.Millisecond)
	close(first.release)
	// later iterations run freely, but each is let through only after the reports published so far
	// have been read (the stream keeps the latest report only: an unread one would be replaced)
	var got []search.PV
	timeout := time.After(liveness)
	closed := false
	for !closed {
		select {
		case ev := <-gs.entering:
			for drained := false; !drained && !closed; {
				select {
				case pv, ok := <-out:
					if !ok {
						closed = true
					} else {
						got = append(got, pv)
					}
				default:
					drained = true
				}
			}
			close(ev.release)
		case pv, ok := <-out:
			if !ok {
				closed = true
				break
			}
			got = append(got, pv)
		case <-timeout:
			halt()
			return fmt.Errorf("%s: the analysis did not end (%d reports)", where, len(got))
		}
	}
	// anything that reached the gate while the stream was closing
	for more := true; more; {
		select {
		case ev := <-gs.entering:
			close(ev.release)
		default:
			more = false
		}
	}
	if len(got) == 0 || got[0].Depth != 1 {
		return fmt.Errorf("%s: the analysis ended without reporting depth 1 (reports: %v)", where, got)
	}
	s, _ := cfg.make(c.Param)
	_, want, wantPV, err := s.Search(ctx, search.EmptyContext, b.Fork(), 1)
	if err != nil {
		return err
	}
	if got[0].Score != want || !samePV(got[0].Moves, wantPV) {
		return fmt.Errorf("%s: depth 1 reported as %v %v, a direct depth-1 search returns %v %v", where, got[0].Score, pvText(got[0].Moves), want, pvText(wantPV))
	}
	last := got[len(got)-1]
	done := make(chan search.PV, 1)
	go func() { done <- halt() }()
	select {
	case pv := <-done:
		if pv.Depth < 1 || pv.Depth < last.Depth {
			return fmt.Errorf("%s: Halt() returns %v after depth %d had been reported", where, pv, last.Depth)
		}
		if len(pv.Moves) == 0 && g.Cur().Pos.HasLegal() && !g.DrawNow() {
			return fmt.Errorf("%s: Halt() returns no move although the root has legal moves", where)
		}
	case <-time.After(liveness):
		return fmt.Errorf("%s: Halt() does not return", where)
	}
	labels := []string{"cfg:" + c.Config}
	_, hard := searchctl.TimeControl{White: time.Duration(c.ClockMS) * time.Millisecond, Black: time.Duration(c.ClockMS) * time.Millisecond}.Limits(b.Turn())
	expired := hard < time.Duration(c.HoldMS)*time.Millisecond
	if expired {
		labels = append(labels, "hard-limit-expired-during-depth-1")
	}
	if c.ViaEngine {
		labels = append(labels, "via-engine")
	}
	if c.Limit > 0 {
		labels = append(labels, "depth-limit-and-clock")
	}
	stats.Case("C15/clock", stats.FP(c.FEN, fmt.Sprint(c.Moves), c.Config, c.Param, c.ClockMS, c.HoldMS, c.ViaEngine, c.Limit), expired || c.Limit > 0, labels...)
	return nil
})

func TestC15_clock(t *testing.T) {
	runRapid(t, "C15/clock", 1200, func(t *rapid.T) clockCase {
		return clockCase{searchCase: genSearchCase(t, abConfigs), ClockMS: int64(rapid.SampledFrom([]int{0, 0, 1, 20, 80, 400}).Draw(t, "clock")),
			HoldMS: rapid.SampledFrom([]int{0, 3, 25}).Draw(t, "hold"), ViaEngine: rapid.Bool().Draw(t, "viaengine"),
			Limit: rapid.SampledFrom([]int{0, 0, 30, 60}).Draw(t, "limit")}
	}, func(c clockCase) error {
		stats.Sample("C15/clock", c)
		return checkC15Clock(c)
	})
}

// C15/halttwice: iteration k completes, but its result reaches the driver of the analysis only
// after a first Halt() has returned (the search was about to return when the halt arrived). The
// iteration is reported; a second Halt(), requested after that report, must not return anything
// shallower.
type haltTwiceCase struct {
	searchCase     // Depth unused
	K          int `json:"k"` // the iteration held at its exit (>= 2)
}

var checkC15HaltTwice = def("C15/halttwice", func(c haltTwiceCase) error {
	b, g, cfg, err := setupSearch(c.searchCase)
	if err == errDiscard {
		stats.Case("C15/halttwice", 0, false, "discarded-sticky-draw-root")
		return nil
	}
	if err != nil {
		return err
	}
	ctx := context.Background()
	k := max(2, c.K)
	// the analysis must get as far as iteration k
	for d := 1; d < k; d++ {
		s, _ := cfg.make(c.Param)
		_, score, _, err := s.Search(ctx, search.EmptyContext, b.Fork(), d)
		if err != nil {
			return err
		}
		if md, ok := score.MateDistance(); ok && int(md) <= d {
			stats.Case("C15/halttwice", 0, false, "ends-by-itself-earlier")
			return nil
		}
	}
	inner, _ := cfg.make(c.Param)
	gs := newGatedSearch(inner, 0)
	gs.holdExitAt, gs.exiting = k, make(chan gateEvent, 4)
	h, out := (&searchctl.Iterative{Root: gs}).Launch(ctx, b.Fork(), search.NoTranspositionTable{}, eval.Random{}, searchctl.Options{})
	where := fmt.Sprintf("%s at %s, iteration %d completes while a halt is in progress", c.Config, g.Cur().FEN(), k)
	var ev gateEvent
	select {
	case ev = <-gs.exiting:
	case <-time.After(liveness):
		h.Halt()
		return fmt.Errorf("%s: iteration %d never completed", where, k)
	}
	first := h.Halt()
	if first.Depth != k-1 {
		close(ev.release)
		return fmt.Errorf("%s: the first Halt() returns depth %d, the last iteration handed over is %d", where, first.Depth, k-1)
	}
	close(ev.release)
	reported := 0
	timeout := time.After(liveness)
loop:
	for {
		select {
		case pv, ok := <-out:
			if !ok {
				break loop
			}
			reported = max(reported, pv.Depth)
		case <-timeout:
			return fmt.Errorf("%s: the stream does not end after the halt", where)
		}
	}
	second := h.Halt()
	if second.Depth < reported || second.Depth < first.Depth {
		return fmt.Errorf("%s: depth %d was reported, then Halt() was requested again and returned depth %d (first Halt(): depth %d)", where, reported, second.Depth, first.Depth)
	}
	lab := "completed-iteration-dropped"
	if reported == k {
		lab = "completed-iteration-reported-after-the-first-halt"
	}
	stats.Case("C15/halttwice", stats.FP(c.FEN, fmt.Sprint(c.Moves), c.Config, c.Param, k), reported == k, "cfg:"+c.Config, lab)
	return nil
})

func TestC15_halttwice(t *testing.T) {
	runRapid(t, "C15/halttwice", 1200, func(t *rapid.T) haltTwiceCase {
		sc := genSearchCase(t, abConfigs)
		return haltTwiceCase{searchCase: sc, K: rapid.IntRange(2, max(2, min(sc.Depth, 4))).Draw(t, "k")}
	}, func(c haltTwiceCase) error {
		stats.Sample("C15/halttwice", c)
		return checkC15HaltTwice(c)
	})
}
