package props

import (
	"reflect"
	"sync"
	"sync/atomic"
	"context"
	"fmt"
	"math"
	"testing"

	"github.com/herohde/morlock/cmd/bernstein/bernstein"
	"github.com/herohde/morlock/cmd/sargon/sargon"
	"github.com/herohde/morlock/cmd/turochamp/turochamp"
	"github.com/herohde/morlock/pkg/board"
	"github.com/herohde/morlock/pkg/engine"
	"github.com/herohde/morlock/pkg/eval"
	"pgregory.net/rapid"
	"verifharness/bridge"
	"verifharness/gen"
	"verifharness/oracle"
	"verifharness/stats"
)

// histEngineCase: a game (the heuristics read last moves, castled flags and the move
// number), a branch limit and a material factor.
type histEngineCase struct {
	FEN    string   `json:"fen"`
	Moves  []string `json:"moves"`
	Limit  int      `json:"limit"`
	Factor int      `json:"factor"`
}

// mirrorCase mirrors the whole game (ranks flipped, colours, rights, e.p. and every move).
func mirrorCase(gc gen.GameCase) (gen.GameCase, error) {
	st, err := oracle.ParseFEN(gc.FEN)
	if err != nil {
		return gc, err
	}
	g := oracle.NewGame(st)
	m := gen.GameCase{FEN: oracle.State{Pos: st.Pos.Mirror(), Half: st.Half, Full: st.Full}.FEN()}
	for _, mv := range gc.Moves {
		om, ok := g.Cur().Pos.FindMove(mv)
		if !ok {
			return gc, fmt.Errorf("case: move %s not legal", mv)
		}
		m.Moves = append(m.Moves, oracle.MirrorMove(om).String())
		g.Push(om)
	}
	return m, nil
}

func finite(name string, v eval.Pawns, fen string) error {
	if f := float64(v); math.IsNaN(f) || math.IsInf(f, 0) {
		return fmt.Errorf("%s evaluates %s to %v", name, fen, v)
	}
	return nil
}

var checkC20 = def("C20/engines", func(c histEngineCase) error {
	ctx := context.Background()
	gc := gen.GameCase{FEN: c.FEN, Moves: c.Moves}
	b, g, err := buildBoard(zt0, gc)
	if err != nil {
		return err
	}
	mc, err := mirrorCase(gc)
	if err != nil {
		return err
	}
	mb, _, err := buildBoard(zt0, mc)
	if err != nil {
		return fmt.Errorf("mirrored game: %v", err)
	}
	fenNow := g.Cur().FEN()
	pos := &g.Cur().Pos

	// (1) evaluations are finite; material, TUROCHAMP and BERNSTEIN are colour-blind
	evals := []struct {
		name      string
		ev        eval.Evaluator
		symmetric bool
	}{
		{"eval.Material", eval.Material{}, true},
		{"turochamp.Material", turochamp.Material{}, true},
		{"turochamp.Eval", turochamp.Eval{}, true},
		{fmt.Sprintf("bernstein.Eval{Factor:%d}", c.Factor), bernstein.Eval{Factor: c.Factor}, true},
	}
	for _, e := range evals {
		v := e.ev.Evaluate(ctx, b.Fork())
		if err := finite(e.name, v, fenNow); err != nil {
			return err
		}
		if e.symmetric {
			if mv := e.ev.Evaluate(ctx, mb.Fork()); mv != v {
				return fmt.Errorf("%s is not colour-blind: %v for the side to move in %s (after %d moves), %v in the mirrored game", e.name, v, fenNow, len(c.Moves), mv)
			}
		}
	}
	// SARGON: points after its per-search reset, at the root and after every legal move
	pts := &sargon.Points{}
	pts.Reset(ctx, b.Fork())
	if err := finite("sargon.Points", pts.Evaluate(ctx, b.Fork()), fenNow); err != nil {
		return err
	}
	legal := pos.Legal()
	want := map[bridge.Key]bool{}
	for _, m := range legal {
		want[bridge.KeyOf(m)] = true
	}
	for i, m := range legal {
		if i%3 != c.Limit%3 {
			continue // a third of the children per case keeps the check cheap
		}
		f := b.Fork()
		if _, err := pushOracleMove(f, m); err != nil {
			return err
		}
		if err := finite("sargon.Points (after "+m.String()+")", pts.Evaluate(ctx, f), fenNow); err != nil {
			return err
		}
		if err := finite("turochamp.Eval (after "+m.String()+")", turochamp.Eval{}.Evaluate(ctx, f), fenNow); err != nil {
			return err
		}
		if err := finite("bernstein.Eval (after "+m.String()+")", bernstein.Eval{Factor: c.Factor}.Evaluate(ctx, f), fenNow); err != nil {
			return err
		}
	}

	// (2) move filters
	// BERNSTEIN plausible moves: legal, each once, at least one when a legal move exists
	seen := map[bridge.Key]bool{}
	pm := bernstein.FindPlausibleMoves(b.Fork())
	for _, m := range pm {
		k := bridge.KeyOfRepo(m)
		if seen[k] {
			return fmt.Errorf("FindPlausibleMoves lists %s twice in %s", bridge.Text(m), fenNow)
		}
		seen[k] = true
		if !want[k] {
			return fmt.Errorf("FindPlausibleMoves selects %s, which is not legal in %s", bridge.Text(m), fenNow)
		}
	}
	if len(legal) > 0 && len(pm) == 0 {
		return fmt.Errorf("FindPlausibleMoves selects nothing although %s has %d legal moves", fenNow, len(legal))
	}
	// ... and as used by the search, with the branch limit
	_, pick := bernstein.PlausibleMoveTable{Limit: c.Limit}.Explore(ctx, b.Fork())
	picked := 0
	for _, m := range b.Position().PseudoLegalMoves(b.Turn()) {
		if pick(m) {
			picked++
			if !want[bridge.KeyOfRepo(m)] {
				return fmt.Errorf("plausible-move exploration (limit %d) selects %s, not legal in %s", c.Limit, bridge.Text(m), fenNow)
			}
		}
	}
	if c.Limit > 0 && picked > c.Limit {
		return fmt.Errorf("plausible-move exploration selects %d moves with branch limit %d in %s", picked, c.Limit, fenNow)
	}
	if len(legal) > 0 && picked == 0 {
		return fmt.Errorf("plausible-move exploration (limit %d) selects nothing although %s has %d legal moves", c.Limit, fenNow, len(legal))
	}
	// SARGON: no under-promotion; keeps a move when one exists
	_, keep := sargon.SkipUnderPromotions(ctx, b.Fork())
	kept := 0
	for _, m := range b.Position().LegalMoves(b.Turn()) {
		if keep(m) {
			kept++
			if m.Promotion != board.NoPiece && m.Promotion != board.Queen {
				return fmt.Errorf("SkipUnderPromotions keeps the under-promotion %s", bridge.Text(m))
			}
		}
	}
	if len(legal) > 0 && kept == 0 {
		return fmt.Errorf("SkipUnderPromotions selects nothing although %s has %d legal moves", fenNow, len(legal))
	}
	// TUROCHAMP: considerable-move predicate is total on every legal move (judged on the board after the move, as the search calls it)
	for _, m := range legal {
		f := b.Fork()
		rm, err := pushOracleMove(f, m)
		if err != nil {
			return err
		}
		_, considerable := turochamp.ConsiderableMovesOnly(ctx, f)
		got := considerable(rm)
		// definition, from the documentation: mates, re-captures, captures of undefended or higher-valued pieces
		n := pos.Make(m)
		if !n.HasLegal() && n.InCheck(n.White) && !got {
			return fmt.Errorf("IsConsiderableMove rejects the mating move %s in %s", m, fenNow)
		}
		if m.Captured == 0 && m.Kind != oracle.EnPassant && got && (n.HasLegal() || !n.InCheck(n.White)) {
			return fmt.Errorf("IsConsiderableMove accepts the quiet, non-mating move %s in %s", m, fenNow)
		}
	}

	var labels []string
	if len(legal) == 0 {
		labels = append(labels, "no-legal-move")
	}
	if pos.InCheck(pos.White) {
		labels = append(labels, "in-check")
	}
	bare := func(white bool) bool {
		for _, pc := range pos.Sq {
			if pc != 0 && (pc > 0) == white && pc != oracle.King && pc != -oracle.King {
				return false
			}
		}
		return true
	}
	if bare(true) || bare(false) {
		labels = append(labels, "bare-king")
	}
	for _, m := range legal {
		switch m.Kind {
		case oracle.CastleK, oracle.CastleQ:
			labels = append(labels, "castling-available")
		case oracle.Promo, oracle.CapturePromo:
			labels = append(labels, "promotion-available")
		}
	}
	if len(c.Moves) > 0 {
		labels = append(labels, "with-history")
	}
	labels = dedup(labels)
	stats.Case("C20/engines", stats.FP(c.FEN, fmt.Sprint(c.Moves), c.Limit, c.Factor), len(labels) > 0, labels...)
	return nil
})

func TestC20_engines(t *testing.T) {
	runRapid(t, "C20/engines", 60000, func(t *rapid.T) histEngineCase {
		var gc gen.GameCase
		switch rapid.IntRange(0, 4).Draw(t, "src") {
		case 0:
			gc, _ = gen.Play(t, gen.Synth(t), 6, gen.DrawPolicy(t))
		case 1:
			gc, _ = gen.Play(t, matingEnding(t), 10, gen.DrawPolicy(t))
		case 2:
			// extremes of what the heuristics count: a queen with all lines open and captures at their
			// ends; boards with very many moves
			st := gen.QueenStar(t)
			if rapid.IntRange(0, 5).Draw(t, "manymoves") == 0 {
				st = gen.ManyMoves(t)
			}
			gc, _ = gen.Play(t, st, rapid.IntRange(0, 1).Draw(t, "plies"), gen.DrawPolicy(t))
		default:
			gc, _ = gen.Game(t, 40)
		}
		return histEngineCase{FEN: gc.FEN, Moves: gc.Moves, Limit: rapid.IntRange(0, 10).Draw(t, "limit"), Factor: rapid.IntRange(1, 100).Draw(t, "factor")}
	}, func(c histEngineCase) error {
		stats.Sample("C20/engines", c)
		return checkC20(c)
	})
}

// bookCase: opening lines for engine.NewBook.
type bookCase struct {
	Lines [][]string `json:"lines"`
	// BadLine: a line whose last move is not legal (NewBook must refuse it)
	BadLine []string `json:"bad_line,omitempty"`
}

func bookRepliesLegal(name string, book engine.Book, g *oracle.Game) (int, error) {
	moves, err := book.Find(context.Background(), g.Cur().FEN())
	if err != nil {
		return 0, fmt.Errorf("%s: Find(%s): %v", name, g.Cur().FEN(), err)
	}
	legal := map[string]bool{}
	for _, m := range g.Cur().Pos.Legal() {
		legal[m.String()] = true
	}
	for _, m := range moves {
		if !legal[bridge.Text(m)] {
			return 0, fmt.Errorf("%s: reply %s is not legal in %s, the position it is keyed on", name, bridge.Text(m), g.Cur().FEN())
		}
	}
	return len(moves), nil
}

var checkC20Book = def("C20/books", func(c bookCase) error {
	var lines []engine.Line
	for _, l := range c.Lines {
		lines = append(lines, engine.Line(l))
	}
	book, err := engine.NewBook(lines)
	if err != nil {
		return fmt.Errorf("NewBook refuses legal lines %v: %v", c.Lines, err)
	}
	positions, twins := 0, 0
	for _, l := range c.Lines {
		g := oracle.NewGame(oracle.MustFEN(oracle.InitialFEN))
		for i, mv := range l {
			n, err := bookRepliesLegal("engine.NewBook", book, g)
			if err != nil {
				return err
			}
			moves, _ := book.Find(context.Background(), g.Cur().FEN())
			found := false
			for _, m := range moves {
				if bridge.Text(m) == mv {
					found = true
				}
			}
			if !found {
				return fmt.Errorf("engine.NewBook: line %v, move %d (%s) is not offered in %s (%d replies)", l, i, mv, g.Cur().FEN(), n)
			}
			om, ok := g.Cur().Pos.FindMove(mv)
			if !ok {
				return fmt.Errorf("case: line move %s not legal", mv)
			}
			g.Push(om)
			positions++
			// the twin of a book position: same men, side and rights, but no en-passant target (reached
			// by another move order). Whatever the book offers there must be legal THERE.
			if g.Cur().Pos.EP >= 0 {
				tw := *g.Cur()
				tw.Pos.EP = -1
				if _, err := bookRepliesLegal("engine.NewBook (looked up with the en-passant twin of a book position)", book, oracle.NewGame(tw)); err != nil {
					return err
				}
				twins++
			}
		}
		if _, err := bookRepliesLegal("engine.NewBook", book, g); err != nil {
			return err
		}
	}
	if len(c.BadLine) > 0 {
		bad, err := engine.NewBook([]engine.Line{engine.Line(c.BadLine)})
		if err == nil {
			return fmt.Errorf("NewBook accepts the line %v, whose last move is not legal", c.BadLine)
		}
		// whatever comes back along with the refusal must not offer an illegal reply either (callers
		// that ignore the error play what the book says)
		if bad != nil && !reflect.ValueOf(bad).IsZero() {
			g := oracle.NewGame(oracle.MustFEN(oracle.InitialFEN))
			for _, mv := range c.BadLine {
				if _, err := bookRepliesLegal("the book returned together with the refusal of "+fmt.Sprint(c.BadLine), bad, g); err != nil {
					return err
				}
				om, ok := g.Cur().Pos.FindMove(mv)
				if !ok {
					break
				}
				g.Push(om)
			}
		}
	}
	transposes := false
	seen := map[string]int{}
	for li, l := range c.Lines {
		g := oracle.NewGame(oracle.MustFEN(oracle.InitialFEN))
		for _, mv := range l {
			om, _ := g.Cur().Pos.FindMove(mv)
			g.Push(om)
			k := g.Cur().Pos.KeyFEN()
			if prev, ok := seen[k]; ok && prev != li {
				transposes = true
			}
			seen[k] = li
		}
	}
	labels := []string{}
	if transposes {
		labels = append(labels, "lines-share-a-position")
	}
	if len(c.BadLine) > 0 {
		labels = append(labels, "illegal-line-refused")
	}
	for _, l := range c.Lines {
		g := oracle.NewGame(oracle.MustFEN(oracle.InitialFEN))
		for _, mv := range l {
			if om, ok := g.Cur().Pos.FindMove(mv); ok {
				if om.Kind == oracle.EnPassant {
					labels = append(labels, "line-with-en-passant-capture")
				}
				g.Push(om)
			}
		}
	}
	if twins > 0 {
		labels = append(labels, "en-passant-twin-looked-up")
	}
	labels = dedup(labels)
	stats.Case("C20/books", stats.FP(fmt.Sprint(c.Lines), fmt.Sprint(c.BadLine)), positions > 0, labels...)
	return nil
})

func TestC20_books(t *testing.T) {
	// the shipped books: every keyed position
	idx, _ := shard()
	if idx == 0 {
		sb := sargon.NewBook()
		bb := bernstein.NewBook()
		g := oracle.NewGame(oracle.MustFEN(oracle.InitialFEN))
		check := func(g *oracle.Game) {
			for name, bk := range map[string]engine.Book{"sargon book": sb, "bernstein book": bb} {
				n, err := bookRepliesLegal(name, bk, g)
				if err != nil {
					failCase(t, "C20/books", bookCase{Lines: [][]string{movesText(g)}}, err)
				}
				stats.Case("C20/shipped-books", stats.FP(name, g.Cur().Pos.KeyFEN()), n > 0, name)
			}
		}
		check(g)
		for _, m := range g.Cur().Pos.Legal() {
			g.Push(m)
			check(g)
			for _, m2 := range g.Cur().Pos.Legal() {
				g.Push(m2)
				check(g)
				g.Pop()
			}
			g.Pop()
		}
	}
	runRapid(t, "C20/books", 24000, func(t *rapid.T) bookCase {
		var c bookCase
		n := rapid.IntRange(1, 5).Draw(t, "lines")
		pol := gen.Policy{1, 2, 1, 0, 1, 1, 0, 0, 4, 4}
		for i := 0; i < n; i++ {
			gc, _ := gen.Play(t, oracle.MustFEN(oracle.InitialFEN), 10, pol)
			if len(gc.Moves) > 0 {
				c.Lines = append(c.Lines, gc.Moves)
			}
		}
		// a line ending in an en-passant capture
		if rapid.Bool().Draw(t, "epline") {
			f := rapid.IntRange(0, 7).Draw(t, "epfile")
			a := f + rapid.SampledFrom([]int{-1, 1}).Draw(t, "epside")
			if a >= 0 && a <= 7 {
				fl, al := string(rune('a'+f)), string(rune('a'+a))
				wait := rapid.SampledFrom([]string{"g8f6", "b8c6", "g8h6", "b8a6"}).Draw(t, "wait")
				line := []string{fl + "2" + fl + "4", wait, fl + "4" + fl + "5", al + "7" + al + "5", fl + "5" + al + "6"}
				if _, err := (gen.GameCase{FEN: oracle.InitialFEN, Moves: line}).Build(); err == nil {
					c.Lines = append(c.Lines, line)
				}
			}
		}
		// transposition: the same four moves in another order
		if rapid.Bool().Draw(t, "transpose") {
			c.Lines = append(c.Lines, []string{"g1f3", "g8f6", "b1c3", "b8c6"}, []string{"b1c3", "b8c6", "g1f3", "g8f6"})
		}
		if rapid.Bool().Draw(t, "bad") {
			gc, g := gen.Play(t, oracle.MustFEN(oracle.InitialFEN), 8, pol)
			var ill []oracle.Move
			for _, m := range g.Cur().Pos.PseudoLegal() {
				if !g.Cur().Pos.IsLegal(m) {
					ill = append(ill, m)
				}
			}
			bad := rapid.SampledFrom([]string{"e1e3", "a1a8", "e7e5e", "h9h8"}).Draw(t, "badmove")
			if len(ill) > 0 {
				bad = ill[rapid.IntRange(0, len(ill)-1).Draw(t, "ill")].String()
			} else if _, ok := g.Cur().Pos.FindMove(bad); ok {
				bad = "a1a1"
			}
			c.BadLine = append(append([]string(nil), gc.Moves...), bad)
		}
		if len(c.Lines) == 0 {
			c.Lines = [][]string{{"e2e4"}}
		}
		return c
	}, func(c bookCase) error {
		stats.Sample("C20/books", c)
		return checkC20Book(c)
	})
}

func movesText(g *oracle.Game) []string {
	var ret []string
	for _, m := range g.Moves {
		ret = append(ret, m.String())
	}
	return ret
}

// C20/parallel: the historical evaluations are functions of the game state; searches of several
// engines (and a halted search next to its successor) evaluate at the same time.
var checkC20Parallel = def("C20/parallel", func(cs []histEngineCase) error {
	ctx := context.Background()
	type job struct {
		b    *board.Board
		fen  string
		want []eval.Pawns
	}
	evs := func(factor int) []eval.Evaluator {
		return []eval.Evaluator{eval.Material{}, turochamp.Material{}, turochamp.Eval{}, bernstein.Eval{Factor: factor}}
	}
	names := []string{"eval.Material", "turochamp.Material", "turochamp.Eval", "bernstein.Eval"}
	var jobs []job
	for _, c := range cs {
		b, g, err := buildBoard(zt0, gen.GameCase{FEN: c.FEN, Moves: c.Moves})
		if err != nil {
			return err
		}
		j := job{b: b, fen: g.Cur().FEN()}
		for _, e := range evs(c.Factor) {
			j.want = append(j.want, e.Evaluate(ctx, b.Fork())) // alone
		}
		jobs = append(jobs, j)
	}
	errs := make([]error, len(jobs))
	var wg sync.WaitGroup
	var start atomic.Bool
	for i := range jobs {
		i := i
		wg.Add(1)
		go func() {
			defer wg.Done()
			defer func() {
				if r := recover(); r != nil {
					errs[i] = fmt.Errorf("panic: %v", r)
				}
			}()
			for !start.Load() {
			}
			for rep := 0; rep < 40 && errs[i] == nil; rep++ {
				for k, e := range evs(cs[i].Factor) {
					if got := e.Evaluate(ctx, jobs[i].b.Fork()); got != jobs[i].want[k] {
						errs[i] = fmt.Errorf("%s evaluates %s to %v while %d other evaluations are running, and to %v alone", names[k], jobs[i].fen, got, len(jobs)-1, jobs[i].want[k])
						break
					}
				}
			}
		}()
	}
	start.Store(true)
	wg.Wait()
	for _, err := range errs {
		if err != nil {
			return err
		}
	}
	stats.Case("C20/parallel", stats.FP(fmt.Sprint(cs)), len(cs) > 1, fmt.Sprintf("goroutines:%d", len(cs)))
	return nil
})

func TestC20_parallel(t *testing.T) {
	runRapid(t, "C20/parallel", 1200, func(t *rapid.T) []histEngineCase {
		var cs []histEngineCase
		for i, n := 0, rapid.IntRange(2, 8).Draw(t, "goroutines"); i < n; i++ {
			gc, _ := gen.Game(t, 30)
			cs = append(cs, histEngineCase{FEN: gc.FEN, Moves: gc.Moves, Factor: rapid.IntRange(1, 100).Draw(t, "factor")})
		}
		return cs
	}, func(cs []histEngineCase) error {
		stats.Sample("C20/parallel", cs)
		return checkC20Parallel(cs)
	})
}
