package props

import (
	"context"
	"fmt"
	"strings"
	"sync"
	"time"

	"github.com/herohde/morlock/cmd/bernstein/bernstein"
	"github.com/herohde/morlock/cmd/sargon/sargon"
	"github.com/herohde/morlock/cmd/turochamp/turochamp"
	"github.com/herohde/morlock/pkg/engine"
	"github.com/herohde/morlock/pkg/engine/uci"
	"github.com/herohde/morlock/pkg/eval"
	"github.com/herohde/morlock/pkg/search"
	"verifharness/oracle"
)

// uciSession is an in-process UCI driver on an engine we constructed, with its output
// collected line by line.
type uciSession struct {
	e      *engine.Engine
	in     chan string
	driver *uci.Driver

	mu     sync.Mutex
	cond   *sync.Cond
	lines  []string
	closed bool // output channel closed
	sent   int  // isready sent
}

// bundle describes how one of the shipped engines is wired (as in cmd/*/main.go).
type bundle struct {
	Name string
	// wrap lets a check interpose on the root search (gating); nil = identity.
	make func(hash, noise uint, depthOverride int, wrap func(search.Search) search.Search) (*engine.Engine, []uci.Option)
}

func wrapOrSelf(s search.Search, wrap func(search.Search) search.Search) search.Search {
	if wrap != nil {
		return wrap(s)
	}
	return s
}

var bundles = []bundle{
	{Name: "morlock", make: func(hash, noise uint, depth int, wrap func(search.Search) search.Search) (*engine.Engine, []uci.Option) {
		s := search.AlphaBeta{Eval: search.Leaf{Eval: eval.Material{}}}
		e := engine.New(context.Background(), "morlock", "herohde", wrapOrSelf(s, wrap),
			engine.WithOptions(engine.Options{Hash: hash, Noise: noise, Depth: uint(depth)}),
			engine.WithTable(search.NewMinDepthTranspositionTable(1)))
		return e, nil
	}},
	{Name: "turochamp", make: func(hash, noise uint, depth int, wrap func(search.Search) search.Search) (*engine.Engine, []uci.Option) {
		s := search.AlphaBeta{Eval: search.Quiescence{Explore: turochamp.ConsiderableMovesOnly, Eval: search.Leaf{Eval: turochamp.Eval{}}}}
		if depth == 0 {
			depth = 2
		}
		e := engine.New(context.Background(), "TUROCHAMP (1948)", "Alan Turing and David Champernowne", wrapOrSelf(s, wrap),
			engine.WithOptions(engine.Options{Depth: uint(depth), Noise: noise, Hash: hash}))
		return e, nil
	}},
	{Name: "sargon", make: func(hash, noise uint, depth int, wrap func(search.Search) search.Search) (*engine.Engine, []uci.Option) {
		points := &sargon.Points{}
		s := sargon.Hook{Eval: search.AlphaBeta{Explore: sargon.SkipUnderPromotions, Eval: sargon.OnePlyIfChecked{Leaf: search.Leaf{Eval: points}}}, Hook: points}
		if depth == 0 {
			depth = 1
		}
		e := engine.New(context.Background(), "SARGON (1978)", "Dan and Kathe Spracklen", wrapOrSelf(s, wrap),
			engine.WithOptions(engine.Options{Depth: uint(depth), Noise: noise, Hash: hash}))
		return e, []uci.Option{uci.UseBook(sargon.NewBook(), 7)}
	}},
	{Name: "bernstein", make: func(hash, noise uint, depth int, wrap func(search.Search) search.Search) (*engine.Engine, []uci.Option) {
		s := search.AlphaBeta{Explore: bernstein.PlausibleMoveTable{Limit: 7}.Explore, Eval: search.Leaf{Eval: bernstein.Eval{Factor: 20}}}
		if depth == 0 {
			depth = 2 // the shipped default is 4; the harness keeps searches short
		}
		e := engine.New(context.Background(), "BERNSTEIN (1957)", "Alex Bernstein et al", wrapOrSelf(s, wrap),
			engine.WithOptions(engine.Options{Depth: uint(depth), Noise: noise, Hash: hash}))
		return e, []uci.Option{uci.UseBook(bernstein.NewBook(), 7)}
	}},
}

func findBundle(name string) (bundle, error) {
	for _, b := range bundles {
		if b.Name == name {
			return b, nil
		}
	}
	return bundle{}, fmt.Errorf("case: unknown engine %q", name)
}

func newUCISession(e *engine.Engine, opts ...uci.Option) *uciSession {
	s := &uciSession{e: e, in: make(chan string, 1)}
	s.cond = sync.NewCond(&s.mu)
	d, out := uci.NewDriver(context.Background(), e, s.in, opts...)
	s.driver = d
	go func() {
		for line := range out {
			s.mu.Lock()
			s.lines = append(s.lines, line)
			s.cond.Broadcast()
			s.mu.Unlock()
		}
		s.mu.Lock()
		s.closed = true
		s.cond.Broadcast()
		s.mu.Unlock()
	}()
	return s
}

const uciGrace = 20 * time.Second

// waitFor blocks until pred holds over the collected lines (or the output closes / the
// grace period ends). Returns whether pred held.
func (s *uciSession) waitFor(pred func(lines []string, closed bool) bool, grace time.Duration) bool {
	deadline := time.Now().Add(grace)
	timer := time.AfterFunc(grace, func() {
		s.mu.Lock()
		s.cond.Broadcast()
		s.mu.Unlock()
	})
	defer timer.Stop()
	s.mu.Lock()
	defer s.mu.Unlock()
	for !pred(s.lines, s.closed) {
		if time.Now().After(deadline) {
			return false
		}
		s.cond.Wait()
	}
	return true
}

func count(lines []string, prefix string) int {
	n := 0
	for _, l := range lines {
		if strings.HasPrefix(l, prefix) {
			n++
		}
	}
	return n
}

// send delivers one input line to the driver. Returns false if the driver no longer reads
// (it has shut down).
func (s *uciSession) send(line string) bool {
	select {
	case s.in <- line:
		return true
	case <-s.driver.Closed():
		return false
	case <-time.After(uciGrace):
		return false
	}
}

// barrier sends isready and waits for the matching readyok: everything sent before has been
// processed by the command loop. Returns "" or a description of what went wrong.
func (s *uciSession) barrier() string {
	if !s.send("isready") {
		// either the driver has shut down (then its output closes) or its command loop is stuck
		if s.waitFor(func(_ []string, closed bool) bool { return closed }, uciGrace/4) {
			return "driver shut down"
		}
		return "driver no longer accepts input"
	}
	s.mu.Lock()
	s.sent++
	want := s.sent
	s.mu.Unlock()
	ok := s.waitFor(func(lines []string, closed bool) bool { return count(lines, "readyok") >= want || closed }, uciGrace)
	s.mu.Lock()
	defer s.mu.Unlock()
	if count(s.lines, "readyok") >= want {
		return ""
	}
	if s.closed {
		return "driver shut down"
	}
	_ = ok
	return fmt.Sprintf("no readyok within %v (deadlock)", uciGrace)
}

func (s *uciSession) snapshotLines() []string {
	s.mu.Lock()
	defer s.mu.Unlock()
	return append([]string(nil), s.lines...)
}

// quit ends the session and waits for the output to close.
func (s *uciSession) quit() bool {
	s.send("quit")
	return s.waitFor(func(_ []string, closed bool) bool { return closed }, uciGrace)
}

// posCmd is a structured "position" command.
type posCmd struct {
	FEN   string   `json:"fen,omitempty"` // "" = startpos
	Moves []string `json:"moves,omitempty"`
}

func (p posCmd) text() string {
	var sb strings.Builder
	sb.WriteString("position ")
	if p.FEN == "" {
		sb.WriteString("startpos")
	} else {
		sb.WriteString("fen " + p.FEN)
	}
	if len(p.Moves) > 0 {
		sb.WriteString(" moves " + strings.Join(p.Moves, " "))
	}
	return sb.String()
}

// game builds the oracle game the command describes.
func (p posCmd) game() (*oracle.Game, error) {
	f := p.FEN
	if f == "" {
		f = oracle.InitialFEN
	}
	st, err := oracle.ParseFEN(f)
	if err != nil {
		return nil, fmt.Errorf("case: %v", err)
	}
	g := oracle.NewGame(st)
	for i, mv := range p.Moves {
		m, ok := g.Cur().Pos.FindMove(mv)
		if !ok {
			return nil, fmt.Errorf("case: move %d (%s) of %q is not legal", i, mv, p.text())
		}
		g.Push(m)
	}
	return g, nil
}
