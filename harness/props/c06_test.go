package props

import (
	"fmt"
	"sort"
	"sync"
	"testing"

	"github.com/herohde/morlock/pkg/board"
	"github.com/herohde/morlock/pkg/eval"
	"pgregory.net/rapid"
	"verifharness/bridge"
	"verifharness/gen"
	"verifharness/oracle"
	"verifharness/stats"
)

// rayCase: a slider kind on a square with a given occupancy (oracle square numbering,
// bit s of Occ = oracle square s occupied).
type rayCase struct {
	Piece string `json:"piece"` // rook | bishop | queen | king | knight
	Sq    int    `json:"sq"`
	Occ   uint64 `json:"occ"`
}

func occToRepo(occ uint64) board.Bitboard {
	var bb board.Bitboard
	for s := 0; s < 64; s++ {
		if occ&(1<<uint(s)) != 0 {
			bb |= board.BitMask(bridge.Sq(s))
		}
	}
	return bb
}

func repoToSet(bb board.Bitboard) uint64 {
	var occ uint64
	for _, sq := range bb.ToSquares() {
		occ |= 1 << uint(bridge.OSq(sq))
	}
	return occ
}

// geometric attack set by walking
func walkAttacks(piece string, sq int, occ uint64) uint64 {
	var ret uint64
	f, r := oracle.File(sq), oracle.Rank(sq)
	step := func(ds [][2]int, slide bool) {
		for _, d := range ds {
			cf, cr := f+d[0], r+d[1]
			for cf >= 0 && cf < 8 && cr >= 0 && cr < 8 {
				s := oracle.Sq(cf, cr)
				ret |= 1 << uint(s)
				if !slide || occ&(1<<uint(s)) != 0 {
					break
				}
				cf, cr = cf+d[0], cr+d[1]
			}
		}
	}
	orth := [][2]int{{1, 0}, {-1, 0}, {0, 1}, {0, -1}}
	diag := [][2]int{{1, 1}, {1, -1}, {-1, 1}, {-1, -1}}
	switch piece {
	case "rook":
		step(orth, true)
	case "bishop":
		step(diag, true)
	case "queen":
		step(orth, true)
		step(diag, true)
	case "king":
		step(orth, false)
		step(diag, false)
	case "knight":
		step([][2]int{{1, 2}, {2, 1}, {2, -1}, {1, -2}, {-1, -2}, {-2, -1}, {-2, 1}, {-1, 2}}, false)
	}
	return ret
}

var checkC06Ray = def("C06/table", func(c rayCase) error {
	rot := board.NewRotatedBitboard(occToRepo(c.Occ))
	sq := bridge.Sq(c.Sq)
	var got board.Bitboard
	var viaDispatch board.Bitboard
	switch c.Piece {
	case "rook":
		got, viaDispatch = board.RookAttackboard(rot, sq), board.Attackboard(rot, sq, board.Rook)
	case "bishop":
		got, viaDispatch = board.BishopAttackboard(rot, sq), board.Attackboard(rot, sq, board.Bishop)
	case "queen":
		got, viaDispatch = board.QueenAttackboard(rot, sq), board.Attackboard(rot, sq, board.Queen)
	case "king":
		got, viaDispatch = board.KingAttackboard(sq), board.Attackboard(rot, sq, board.King)
	case "knight":
		got, viaDispatch = board.KnightAttackboard(sq), board.Attackboard(rot, sq, board.Knight)
	default:
		return fmt.Errorf("case: piece %q", c.Piece)
	}
	want := walkAttacks(c.Piece, c.Sq, c.Occ)
	if repoToSet(got) != want {
		return fmt.Errorf("%s on %s with occupancy %016x attacks %016x, movement rule reaches %016x", c.Piece, oracle.SqName(c.Sq), c.Occ, repoToSet(got), want)
	}
	if viaDispatch != got {
		return fmt.Errorf("Attackboard(%s) differs from the dedicated function on %s occ %016x", c.Piece, oracle.SqName(c.Sq), c.Occ)
	}
	return nil
})

// lineSquares lists the squares on the lines through sq (excluding sq).
func lineSquares(piece string, sq int) []int {
	all := walkAttacks(piece, sq, 0)
	var ret []int
	for s := 0; s < 64; s++ {
		if all&(1<<uint(s)) != 0 {
			ret = append(ret, s)
		}
	}
	return ret
}

// TestC06_table enumerates, for every square, EVERY occupancy of the lines through it, for
// rooks and bishops (with the square itself occupied and empty), and a second pass with
// clutter off the lines, which must not matter. Queens: union, on every rook occupancy
// combined with a derived bishop occupancy. Kings and knights: all squares.
func TestC06_table(t *testing.T) {
	idx, n := shard()
	var lookups int64
	for sq := 0; sq < 64; sq++ {
		if sq%n != idx {
			continue
		}
		for _, piece := range []string{"rook", "bishop"} {
			line := lineSquares(piece, sq)
			for m := uint64(0); m < 1<<uint(len(line)); m++ {
				var occ uint64
				for i, s := range line {
					if m&(1<<uint(i)) != 0 {
						occ |= 1 << uint(s)
					}
				}
				// clutter: a deterministic function of (sq, m) on squares off the lines
				clutter := (m*0x9E3779B97F4A7C15 ^ uint64(sq)*0xD1B54A32D192ED03)
				var lineMask uint64
				for _, s := range line {
					lineMask |= 1 << uint(s)
				}
				clutter &^= lineMask | 1<<uint(sq)
				for _, o := range []uint64{occ, occ | 1<<uint(sq), occ | clutter, occ | clutter | 1<<uint(sq)} {
					c := rayCase{Piece: piece, Sq: sq, Occ: o}
					if err := checkC06Ray(c); err != nil {
						failCase(t, "C06/table", c, err)
					}
					lookups++
				}
				stats.Enumerated("C06/table", 1, piece)
				if m%4099 == 0 {
					stats.Sample("C06/table", rayCase{Piece: piece, Sq: sq, Occ: occ})
				}
				// queen on the same square: rook-line occupancy m plus clutter (which now lies
				// partly on the diagonals and therefore matters)
				if piece == "rook" && m%4 == 0 {
					c := rayCase{Piece: "queen", Sq: sq, Occ: occ | clutter}
					if err := checkC06Ray(c); err != nil {
						failCase(t, "C06/table", c, err)
					}
					lookups++
					stats.Enumerated("C06/table", 1, "queen")
				}
			}
		}
		for _, piece := range []string{"king", "knight"} {
			c := rayCase{Piece: piece, Sq: sq, Occ: uint64(sq) * 0x9E3779B97F4A7C15}
			if err := checkC06Ray(c); err != nil {
				failCase(t, "C06/table", c, err)
			}
			lookups++
			stats.Enumerated("C06/table", 1, piece)
		}
	}
	stats.Note("C06/table", "attack_lookups", lookups)
	stats.SetExhaustive("C06/table")
}

// pawnCase: pawn capture board for a set of pawns.
type pawnCase struct {
	White bool   `json:"white"`
	Pawns uint64 `json:"pawns"` // oracle numbering
}

var checkC06Pawn = def("C06/pawns", func(c pawnCase) error {
	got := repoToSet(board.PawnCaptureboard(bridge.Color(c.White), occToRepo(c.Pawns)))
	var want uint64
	dir := 1
	if !c.White {
		dir = -1
	}
	for s := 0; s < 64; s++ {
		if c.Pawns&(1<<uint(s)) == 0 {
			continue
		}
		for _, df := range []int{-1, 1} {
			f, r := oracle.File(s)+df, oracle.Rank(s)+dir
			if f >= 0 && f < 8 && r >= 0 && r < 8 {
				want |= 1 << uint(oracle.Sq(f, r))
			}
		}
	}
	if got != want {
		return fmt.Errorf("PawnCaptureboard(white=%v, %016x) = %016x, pawns attack %016x", c.White, c.Pawns, got, want)
	}
	return nil
})

func TestC06_pawns(t *testing.T) {
	idx, _ := shard()
	if idx == 0 {
		for s := 0; s < 64; s++ {
			for _, w := range []bool{true, false} {
				c := pawnCase{White: w, Pawns: 1 << uint(s)}
				if err := checkC06Pawn(c); err != nil {
					failCase(t, "C06/pawns", c, err)
				}
				stats.Case("C06/pawns", stats.FP(w, s), true, "single-pawn")
			}
		}
	}
	runRapid(t, "C06/pawns", 60000, func(t *rapid.T) pawnCase {
		return pawnCase{White: rapid.Bool().Draw(t, "white"), Pawns: rapid.Uint64().Draw(t, "a") & rapid.Uint64().Draw(t, "b")}
	}, func(c pawnCase) error {
		stats.Case("C06/pawns", stats.FP(c.White, c.Pawns), true, "pawn-set")
		stats.Sample("C06/pawns", c)
		return checkC06Pawn(c)
	})
}

type pinT struct{ A, P, T int }

func oraclePins(o *oracle.Pos, white bool, kind int8) []pinT {
	var ret []pinT
	tk := kind
	if !white {
		tk = -kind
	}
	dirs := [][2]int{{1, 0}, {-1, 0}, {0, 1}, {0, -1}, {1, 1}, {1, -1}, {-1, 1}, {-1, -1}}
	for tgt := 0; tgt < 64; tgt++ {
		if o.Sq[tgt] != tk {
			continue
		}
		for di, d := range dirs {
			f, r := oracle.File(tgt)+d[0], oracle.Rank(tgt)+d[1]
			pinned := -1
			for f >= 0 && f < 8 && r >= 0 && r < 8 {
				s := oracle.Sq(f, r)
				if pc := o.Sq[s]; pc != 0 {
					if pinned < 0 {
						if (pc > 0) != white {
							break // first piece on the line is an enemy: no pin
						}
						pinned = s
					} else {
						k := pc
						if k < 0 {
							k = -k
						}
						enemy := (pc > 0) != white
						if enemy && (k == oracle.Queen || (di < 4 && k == oracle.Rook) || (di >= 4 && k == oracle.Bishop)) {
							ret = append(ret, pinT{s, pinned, tgt})
						}
						break
					}
				}
				f, r = f+d[0], r+d[1]
			}
		}
	}
	sort.Slice(ret, func(i, j int) bool { return fmt.Sprint(ret[i]) < fmt.Sprint(ret[j]) })
	return ret
}

// checkC06Derived judges the derived queries on one position.
var checkC06Derived = def("C06/derived", func(gc gen.GameCase) error {
	// the position is the one the engine itself derives by playing the moves (its redundant
	// occupancy views are then the incrementally maintained ones), not a fresh set-up
	b, g, err := buildBoard(zt0, gc)
	if err != nil {
		return err
	}
	c := fenCase{FEN: g.Cur().FEN()}
	o := &g.Cur().Pos
	p := b.Position()
	if err := attacksAgree(p, o); err != nil {
		return fmt.Errorf("after %d moves from %s: %v", len(gc.Moves), gc.FEN, err)
	}
	// attacked/defended "by these kinds": any list of kinds, in any order (a deterministic
	// family of lists derived from the position, so that the case stays a pure function)
	kinds := []int8{oracle.Pawn, oracle.Knight, oracle.Bishop, oracle.Rook, oracle.Queen, oracle.King}
	seed := stats.FP(o.KeyFEN())
	for trial := 0; trial < 4; trial++ {
		seed = mix64(seed + uint64(trial))
		perm := append([]int8(nil), kinds...)
		for i := len(perm) - 1; i > 0; i-- {
			j := int(mix64(seed+uint64(i)) % uint64(i+1))
			perm[i], perm[j] = perm[j], perm[i]
		}
		list := perm[:1+int(seed%6)]
		var rl []board.Piece
		inList := map[int8]bool{}
		for _, k := range list {
			rl = append(rl, bridge.Piece(k))
			inList[k] = true
		}
		for s := 0; s < 64; s++ {
			for _, white := range []bool{true, false} {
				want := false
				for _, from := range o.AttackersOf(s, !white) {
					k := o.Sq[from]
					if k < 0 {
						k = -k
					}
					if inList[k] {
						want = true
					}
				}
				if got := p.IsAttackedBy(bridge.Color(white), bridge.Sq(s), rl); got != want {
					return fmt.Errorf("IsAttackedBy(%v, %s, %v)=%v, definition says %v in %s", bridge.Color(white), oracle.SqName(s), rl, got, want, c.FEN)
				}
				if got := p.IsDefendedBy(bridge.Color(!white), bridge.Sq(s), rl); got != want {
					return fmt.Errorf("IsDefendedBy(%v, %s, %v)=%v, definition says %v in %s", bridge.Color(!white), oracle.SqName(s), rl, got, want, c.FEN)
				}
			}
		}
	}
	var labels []string
	multi := false
	for _, white := range []bool{true, false} {
		col := bridge.Color(white)
		if got, want := p.IsChecked(col), o.InCheck(white); got != want {
			return fmt.Errorf("IsChecked(%v)=%v want %v in %s", col, got, want, c.FEN)
		} else if want {
			labels = append(labels, "check")
		}
		// checkmate: in check and no legal move (for the side to move; the other side cannot be in check)
		wantMate := false
		if white == o.White {
			wantMate = o.InCheck(white) && !o.HasLegal()
		}
		if got := p.IsCheckMate(col); got != wantMate {
			return fmt.Errorf("IsCheckMate(%v)=%v want %v in %s", col, got, wantMate, c.FEN)
		} else if wantMate {
			labels = append(labels, "mate")
		}
		// which pieces can capture on a square
		for s := 0; s < 64; s++ {
			want := o.AttackersOf(s, white)
			got := eval.FindCapture(p, col, bridge.Sq(s))
			var gs []int
			for _, pl := range got {
				gs = append(gs, bridge.OSq(pl.Square))
				k := o.Sq[bridge.OSq(pl.Square)]
				if k < 0 {
					k = -k
				}
				if pl.Color != col || pl.Piece != bridge.Piece(k) {
					return fmt.Errorf("FindCapture(%v, %s) reports %v, the board has a different piece there (%s)", col, oracle.SqName(s), pl, c.FEN)
				}
			}
			sort.Ints(gs)
			if fmt.Sprint(gs) != fmt.Sprint(want) && !(len(gs) == 0 && len(want) == 0) {
				return fmt.Errorf("FindCapture(%v, %s) = squares %v, attackers by definition %v in %s", col, oracle.SqName(s), gs, want, c.FEN)
			}
			if len(want) >= 2 {
				multi = true
			}
		}
		// pins against king and queen
		for _, kind := range []int8{oracle.King, oracle.Queen} {
			want := oraclePins(o, white, kind)
			var got []pinT
			for _, pin := range eval.FindPins(p, col, bridge.Piece(kind)) {
				got = append(got, pinT{bridge.OSq(pin.Attacker), bridge.OSq(pin.Pinned), bridge.OSq(pin.Target)})
			}
			sort.Slice(got, func(i, j int) bool { return fmt.Sprint(got[i]) < fmt.Sprint(got[j]) })
			if fmt.Sprint(got) != fmt.Sprint(want) && !(len(got) == 0 && len(want) == 0) {
				return fmt.Errorf("FindPins(%v, %v) = %v (attacker,pinned,target), definition gives %v in %s", col, bridge.Piece(kind), got, want, c.FEN)
			}
			if len(want) > 0 {
				if kind == oracle.King {
					labels = append(labels, "pin-on-king")
				} else {
					labels = append(labels, "pin-on-queen")
				}
			}
		}
	}
	if multi {
		labels = append(labels, "multiply-attacked-square")
	}
	nt := false
	for _, l := range labels {
		if l != "multiply-attacked-square" {
			nt = true
		}
	}
	stats.Case("C06/derived", stats.FP(o.KeyFEN()), nt || multi, dedup(labels)...)
	return nil
})

func TestC06_derived(t *testing.T) {
	runRapid(t, "C06/derived", 120000, func(t *rapid.T) gen.GameCase {
		switch rapid.IntRange(0, 5).Draw(t, "synth") {
		case 0, 1:
			gc, _ := gen.Play(t, gen.Synth(t), 4, gen.DrawPolicy(t))
			return gc
		case 2: // in check from a pawn that just jumped, e.p. capture available
			return gen.GameCase{FEN: gen.EPCheck(t).FEN()}
		}
		gc, _ := gen.Game(t, 60)
		return gc
	}, func(c gen.GameCase) error {
		stats.Sample("C06/derived", c)
		return checkC06Derived(c)
	})
}

// TestC06_parallel: the derived queries are pure functions of the position; evaluated by
// several goroutines at once (as concurrent searches do) they must give the same answers.
func TestC06_parallel(t *testing.T) {
	runRapid(t, "C06/parallel", 600, func(t *rapid.T) []string {
		var fens []string
		for i, n := 0, rapid.IntRange(2, 8).Draw(t, "goroutines"); i < n; i++ {
			if rapid.Bool().Draw(t, "synth") {
				fens = append(fens, gen.Synth(t).FEN())
			} else {
				_, g := gen.Game(t, 40)
				fens = append(fens, g.Cur().FEN())
			}
		}
		return fens
	}, func(fens []string) error {
		stats.Sample("C06/parallel", fens)
		return checkC06Parallel(fens)
	})
}

var checkC06Parallel = def("C06/parallel", func(fens []string) error {
	errs := make([]error, len(fens))
	var wg sync.WaitGroup
	for i, f := range fens {
		i, f := i, f
		wg.Add(1)
		go func() {
			defer wg.Done()
			defer func() {
				if r := recover(); r != nil {
					errs[i] = fmt.Errorf("panic: %v", r)
				}
			}()
			for rep := 0; rep < 6 && errs[i] == nil; rep++ {
				errs[i] = checkC06Quiet(f)
			}
		}()
	}
	wg.Wait()
	for i, err := range errs {
		if err != nil {
			return fmt.Errorf("evaluated concurrently with %d other positions: %v (position %s)", len(fens)-1, err, fens[i])
		}
	}
	stats.Case("C06/parallel", stats.FP(fmt.Sprint(fens)), true, fmt.Sprintf("goroutines:%d", len(fens)))
	return nil
})

// checkC06Quiet: FindCapture / FindPins / PieceSquares / LegalMoves of one position against the
// oracle, without touching the statistics (runs on several goroutines).
func checkC06Quiet(f string) error {
	st, err := oracle.ParseFEN(f)
	if err != nil {
		return err
	}
	o := &st.Pos
	p, err := bridge.Position(o)
	if err != nil {
		return err
	}
	for _, white := range []bool{true, false} {
		col := bridge.Color(white)
		for s := 0; s < 64; s++ {
			want := o.AttackersOf(s, white)
			var gs []int
			for _, pl := range eval.FindCapture(p, col, bridge.Sq(s)) {
				gs = append(gs, bridge.OSq(pl.Square))
			}
			sort.Ints(gs)
			if fmt.Sprint(gs) != fmt.Sprint(want) && !(len(gs) == 0 && len(want) == 0) {
				return fmt.Errorf("FindCapture(%v, %s) = %v, definition %v", col, oracle.SqName(s), gs, want)
			}
		}
		for _, kind := range []int8{oracle.King, oracle.Queen} {
			want := oraclePins(o, white, kind)
			var got []pinT
			for _, pin := range eval.FindPins(p, col, bridge.Piece(kind)) {
				got = append(got, pinT{bridge.OSq(pin.Attacker), bridge.OSq(pin.Pinned), bridge.OSq(pin.Target)})
			}
			sort.Slice(got, func(i, j int) bool { return fmt.Sprint(got[i]) < fmt.Sprint(got[j]) })
			if fmt.Sprint(got) != fmt.Sprint(want) && !(len(got) == 0 && len(want) == 0) {
				return fmt.Errorf("FindPins(%v, %v) = %v, definition %v", col, bridge.Piece(kind), got, want)
			}
		}
		for _, pc := range allPieces {
			sqs := p.PieceSquares(col, pc)
			for _, sq := range sqs {
				k := o.Sq[bridge.OSq(sq)]
				if (k > 0) != white || bridge.Piece(abs8t(k)) != pc {
					return fmt.Errorf("PieceSquares(%v, %v) lists %v, which holds something else", col, pc, sq)
				}
			}
		}
	}
	want := map[bridge.Key]bool{}
	for _, m := range o.Legal() {
		want[bridge.KeyOf(m)] = true
	}
	got := p.LegalMoves(bridge.Color(o.White))
	if len(got) != len(want) {
		return fmt.Errorf("LegalMoves lists %d moves, %d are legal", len(got), len(want))
	}
	for _, m := range got {
		if !want[bridge.KeyOfRepo(m)] {
			return fmt.Errorf("LegalMoves lists %s, not legal", bridge.Text(m))
		}
	}
	return nil
}

func abs8t(v int8) int8 {
	if v < 0 {
		return -v
	}
	return v
}
