package props

import (
	"context"
	"fmt"
	"testing"
	"time"

	"github.com/herohde/morlock/pkg/board"
	"github.com/herohde/morlock/pkg/eval"
	"github.com/herohde/morlock/pkg/search"
	"pgregory.net/rapid"
	"verifharness/bridge"
	"verifharness/gen"
	"verifharness/oracle"
	"verifharness/refsearch"
	"verifharness/stats"
)

// pollCtx is a context whose Done() counts cancellation polls and reports cancellation from
// the n-th poll on. Every cancellation test in the searches is a Done() call, so this
// enumerates the search's halting points deterministically.
type pollCtx struct {
	n      int // fire at the n-th poll (1-based); 0 = never
	polls  int
	fired  bool
	open   chan struct{}
	closed chan struct{}
	onFire func()
}

func newPollCtx(n int) *pollCtx {
	c := &pollCtx{n: n, open: make(chan struct{}), closed: make(chan struct{})}
	close(c.closed)
	return c
}

func (c *pollCtx) Deadline() (time.Time, bool) { return time.Time{}, false }
func (c *pollCtx) Value(key any) any           { return nil }
func (c *pollCtx) Err() error {
	if c.fired {
		return context.Canceled
	}
	return nil
}
func (c *pollCtx) Done() <-chan struct{} {
	c.polls++
	if c.n > 0 && c.polls >= c.n {
		if !c.fired {
			c.fired = true
			if c.onFire != nil {
				c.onFire()
			}
		}
		return c.closed
	}
	return c.open
}

// haltCase: a root and search, a table size, and which halting points to try.
type haltCase struct {
	searchCase
	TableBytes uint64 `json:"table_bytes"`
	// Points: explicit poll indices (replay files); when empty, Stride/Offset select them.
	Points []int `json:"points,omitempty"`
	Stride int   `json:"stride"`
	Offset int   `json:"offset"`
	Follow string `json:"follow"` // same | deeper | next
	// Ponder > 0: the halted search is restricted to a line of that many plies
	// (search.Context.Ponder, as the console driver's per-move breakdown does).
	Ponder int `json:"ponder,omitempty"`
}

// ponderLine picks a legal line of up to k plies from the root.
func ponderLine(b *board.Board, g *oracle.Game, k, offset int) []board.Move {
	fb, fg := b.Fork(), g.Clone()
	var line []board.Move
	for i := 0; i < k; i++ {
		legal := fg.Cur().Pos.Legal()
		if len(legal) == 0 {
			break
		}
		om := legal[(offset+i)%len(legal)]
		rm, err := pushOracleMove(fb, om)
		if err != nil {
			break
		}
		fg.Push(om)
		line = append(line, rm)
	}
	return line
}

const maxPointsPerCase = 120

var checkC12 = def("C12/halt", func(c haltCase) error {
	cur := 0
	err := checkC12Inner(c, &cur)
	if err != nil && cur > 0 && len(c.Points) != 1 {
		c.Points = []int{cur}
		return withCase(err, c)
	}
	return err
})

func checkC12Inner(c haltCase, cur *int) error {
	b, g, cfg, err := setupSearch(c.searchCase)
	if err == errDiscard {
		stats.Case("C12/halt", 0, false, "discarded-sticky-draw-root")
		return nil
	}
	if err != nil {
		return err
	}
	ctxbg := context.Background()
	root := &g.Cur().Pos
	where := fmt.Sprintf("%s depth %d at %s (history %d plies), table %d bytes", c.Config, c.Depth, g.Cur().FEN(), len(c.Moves), c.TableBytes)

	// clean run: number of polls
	s, rcfg := cfg.make(c.Param)
	clean := newPollCtx(0)
	var ponder []board.Move
	var ponderBase eval.Score
	if c.Ponder > 0 {
		ponder = ponderLine(b, g, c.Ponder, c.Offset)
		where += fmt.Sprintf(", restricted to the line %s", pvText(ponder))
		if cfg.PositionDetermined && len(ponder) > 0 {
			sp, _ := cfg.make(c.Param)
			if _, ponderBase, _, err = sp.Search(ctxbg, &search.Context{TT: search.NoTranspositionTable{}, Ponder: append([]board.Move(nil), ponder...)}, b.Fork(), c.Depth); err != nil {
				return err
			}
		}
	}
	var cleanTT search.TranspositionTable = newRecTT(c.TableBytes)
	if len(ponder) > 0 {
		cleanTT = search.NoTranspositionTable{}
	}
	if _, _, _, err := s.Search(clean, &search.Context{TT: cleanTT, Ponder: append([]board.Move(nil), ponder...)}, b.Fork(), c.Depth); err != nil {
		return fmt.Errorf("%s: uncancelled search failed: %v", where, err)
	}
	P := clean.polls

	// the follow-up search and what it must return
	fb, fg, fdepth := b, g, c.Depth
	switch c.Follow {
	case "deeper":
		fdepth = c.Depth + 1
	case "next":
		legal := root.Legal()
		if len(legal) > 0 {
			fb, fg = b.Fork(), g.Clone()
			m := legal[c.Offset%len(legal)]
			if _, err := pushOracleMove(fb, m); err != nil {
				return err
			}
			fg.Push(m)
		}
	}
	useTable := cfg.PositionDetermined
	var ref *refsearch.Result
	var baseScore eval.Score
	if useTable {
		if fg.DrawEver() {
			useTable = false
		}
	}
	if useTable {
		// the halted search's own tree must satisfy the same precondition as the follow-up's:
		// entries stored under a repetition / fifty-move draw are true only for that history
		_, hcfg := cfg.make(c.Param)
		hb := b.Fork()
		prepareRef(&hcfg, hb)
		hcfg.Budget = 30_000
		if cfg.Quiescence {
			hcfg.Budget = 8_000
		}
		href, herr := refsearch.Search(hcfg, g.Clone(), hb, c.Depth)
		if herr == refsearch.ErrBudget || (herr == nil && href.SawRepetitionOrFifty) || g.DrawEver() {
			useTable = false
		} else if herr != nil {
			return herr
		}
	}
	if useTable {
		rb := fb.Fork()
		prepareRef(&rcfg, rb)
		rcfg.Budget = 30_000
		if cfg.Quiescence {
			rcfg.Budget = 8_000
		}
		ref, err = refsearch.Search(rcfg, fg.Clone(), rb, fdepth)
		if err == refsearch.ErrBudget || (err == nil && ref.SawRepetitionOrFifty) {
			useTable, err = false, nil
		}
		if err != nil {
			return err
		}
	}
	if useTable {
		s2, _ := cfg.make(c.Param)
		_, baseScore, _, err = s2.Search(ctxbg, &search.Context{TT: newRecTT(c.TableBytes)}, fb.Fork(), fdepth)
		if err != nil {
			return err
		}
	}

	points := c.Points
	if len(points) == 0 {
		stride := max(1, c.Stride)
		if P <= maxPointsPerCase {
			stride = 1
		} else if P/stride > maxPointsPerCase {
			stride = P/maxPointsPerCase + 1
		}
		for n := 1 + c.Offset%stride; n <= P; n += stride {
			points = append(points, n)
		}
	}

	inside, lateStores, lateExact := 0, 0, 0
	for _, n := range points {
		if n < 1 || n > P {
			continue
		}
		*cur = n
		s, _ := cfg.make(c.Param)
		rec := newRecTT(c.TableBytes)
		sb := b.Fork()
		before := takeSnap(sb)
		pc := newPollCtx(n)
		depthAtFire := 0
		pc.onFire = func() { depthAtFire = sb.Ply() - before.Ply }
		rec.cur, rec.epoch = sb, 1
		rec.halted = func() bool { return pc.fired }
		hctx := &search.Context{TT: rec, Ponder: append([]board.Move(nil), ponder...)}
		if len(ponder) > 0 {
			// as the only caller of restricted searches does (console breakdown): no table. (A restricted
			// search given a real table stores the restricted values of the positions on its line as if
			// they were full-search values; no caller combines the two, so that is outside the domain.)
			hctx.TT = search.NoTranspositionTable{}
		}
		htt := hctx.TT
		nodes, score, pv, serr := s.Search(pc, hctx, sb, c.Depth)
		at := fmt.Sprintf("%s, cancelled at poll %d of %d (%d moves deep)", where, n, P, depthAtFire)
		// (1) reports that it was halted rather than a score
		if serr != search.ErrHalted {
			return fmt.Errorf("%s: search returned error=%v score=%v instead of reporting that it was halted", at, serr, score)
		}
		if !score.IsInvalid() || len(pv) != 0 || nodes != 0 {
			return fmt.Errorf("%s: halted search also returned score=%v pv=%v nodes=%d", at, score, pvText(pv), nodes)
		}
		// (2) board handed back
		if d := diffSnap(takeSnap(sb), before, !root.HasLegal()); d != "" {
			return fmt.Errorf("%s: board not handed back in the state it was received in: %s", at, d)
		}
		if root.HasLegal() {
			if err := sameFuture(sb, b, root); err != nil {
				return fmt.Errorf("%s: %v", at, err)
			}
		}
		if depthAtFire > 0 {
			inside++
		}
		// (3) nothing left behind: the caller's search context is what the caller built
		if !samePV(hctx.Ponder, ponder) || hctx.TT != htt {
			return fmt.Errorf("%s: the halted search changed the caller's search context: the line to search is now %q", at, pvText(hctx.Ponder))
		}
		if len(ponder) > 0 && cfg.PositionDetermined {
			// the same restricted search with that context (fresh table): what it returns when nothing was halted before
			sp, _ := cfg.make(c.Param)
			_, again, _, perr := sp.Search(ctxbg, hctx, b.Fork(), c.Depth)
			if perr != nil || again != ponderBase {
				return fmt.Errorf("%s: the same restricted search run afterwards with the caller's context returns %v (%v); had the halted search never run: %v", at, again, perr, ponderBase)
			}
		}
		for _, st := range rec.stores {
			if st.Late {
				lateStores++
				if st.Bound == search.ExactBound {
					lateExact++
				}
			}
		}
		if !useTable || len(ponder) > 0 {
			continue
		}
		// (3a) a following search on the same table
		rec.mu.Lock()
		fsb := fb.Fork()
		rec.cur, rec.epoch, rec.halted = fsb, 2, nil
		rec.mu.Unlock()
		s3, _ := cfg.make(c.Param)
		_, fscore, fpv, ferr := s3.Search(ctxbg, &search.Context{TT: rec}, fsb, fdepth)
		if ferr != nil {
			return fmt.Errorf("%s: following search failed: %v", at, ferr)
		}
		fat := fmt.Sprintf("%s; then %q search depth %d at %s on the same table", at, c.Follow, fdepth, fg.Cur().FEN())
		if fscore != baseScore {
			return fmt.Errorf("%s returns %v; had the halted search never run it returns %v (exhaustive value %v)", fat, fscore, baseScore, ref.Value)
		}
		if got, ok := refsearch.FromScore(fscore); !ok || !sameValue(got, ref.Value) {
			return fmt.Errorf("%s returns %v, exhaustive value %v", fat, fscore, ref.Value)
		}
		if ref.RootLegal > 0 && len(ref.RootMoves) > 0 {
			if len(fpv) == 0 {
				return fmt.Errorf("%s returns no principal variation", fat)
			}
			if v, ok := ref.RootMoves[bridge.KeyOfRepo(fpv[0])]; !ok || refsearch.Cmp(v, ref.Value) != 0 {
				return fmt.Errorf("%s: principal variation starts with %s (worth %v), best is %v", fat, bridge.Text(fpv[0]), v, ref.Value)
			}
		}
		// (3b) every exact store the halted search made after cancellation was reported, and a
		// few of the earlier ones, must be true
		checked := 0
		for i, st := range rec.stores {
			if st.Epoch != 1 || st.Bound != search.ExactBound {
				continue
			}
			if !st.Late && (i+n)%17 != 0 {
				continue
			}
			if checked >= 12 {
				break
			}
			_, rc := cfg.make(c.Param)
			if done, err := validateStore(st, rc); err != nil {
				when := "before"
				if st.Late {
					when = "AFTER"
				}
				return fmt.Errorf("%s: store made %s cancellation was reported: %v", at, when, err)
			} else if done {
				checked++
			}
		}
	}
	labels := []string{"cfg:" + c.Config, "follow:" + c.Follow}
	if len(ponder) > 0 {
		labels = append(labels, fmt.Sprintf("restricted-line:%d", len(ponder)))
	}
	if useTable {
		labels = append(labels, "table-compared")
	}
	if lateStores > 0 {
		labels = append(labels, "stores-after-cancellation-observed")
	}
	for _, n := range points {
		stats.Distinct("C12/halt", stats.FP(c.FEN, fmt.Sprint(c.Moves), c.Config, c.Param, c.Depth, c.TableBytes, c.Follow, c.Ponder, n))
	}
	stats.Case("C12/halt", stats.FP(c.FEN, fmt.Sprint(c.Moves), c.Config, c.Param, c.Depth, c.TableBytes, c.Follow, c.Ponder, "root"), inside > 0, labels...)
	stats.Note("C12/halt", "cancellation_points_tried", int64(len(points)))
	stats.Note("C12/halt", "cancellation_points_inside_search", int64(inside))
	stats.Note("C12/halt", "polls_total", int64(P))
	stats.Note("C12/halt", "late_stores_seen", int64(lateStores))
	stats.Note("C12/halt", "late_exact_stores_seen", int64(lateExact))
	if P <= maxPointsPerCase && len(c.Points) == 0 {
		stats.Note("C12/halt", "roots_with_every_poll_covered", 1)
	}
	return nil
}

func genHaltCase(t *rapid.T) haltCase {
	sc := genSearchCase(t, searchConfigs)
	cfg, _ := findConfig(sc.Config)
	// smaller trees: the halting points are enumerated
	g, err := gen.GameCase{FEN: sc.FEN, Moves: sc.Moves}.Build()
	if err == nil {
		sc.Depth = min(sc.Depth, estimateDepth(g, cfg, 4, 1500))
	}
	ponder := 0
	if rapid.IntRange(0, 3).Draw(t, "restricted") == 0 {
		ponder = rapid.IntRange(1, 3).Draw(t, "ponder")
	}
	return haltCase{Ponder: ponder, searchCase: sc, TableBytes: rapid.SampledFrom(tableSizes).Draw(t, "table"),
		Stride: rapid.IntRange(1, 7).Draw(t, "stride"), Offset: rapid.IntRange(0, 50).Draw(t, "offset"),
		Follow: rapid.SampledFrom([]string{"same", "same", "deeper", "next"}).Draw(t, "follow")}
}

func TestC12_halt(t *testing.T) {
	runRapid(t, "C12/halt", 1200, genHaltCase, func(c haltCase) error {
		stats.Sample("C12/halt", c)
		return checkC12(c)
	})
}

var _ = oracle.InitialFEN
var _ board.Move
