package props

import (
	"context"
	"fmt"
	"sync"
	"sync/atomic"
	"testing"

	"github.com/herohde/morlock/pkg/board/fen"
	"github.com/herohde/morlock/pkg/engine"
	"github.com/herohde/morlock/pkg/eval"
	"github.com/herohde/morlock/pkg/search"
	"pgregory.net/rapid"
	"verifharness/bridge"
	"verifharness/gen"
	"verifharness/oracle"
	"verifharness/stats"
)

type fenCase struct {
	FEN string `json:"fen"` // canonical, from the oracle
}

// checkC14RoundTrip: encode -> decode and decode -> encode are identities.
var checkC14RoundTrip = def("C14/roundtrip", func(c fenCase) error {
	st, err := oracle.ParseFEN(c.FEN)
	if err != nil {
		return fmt.Errorf("case: %v", err)
	}
	pos, err := bridge.Position(&st.Pos)
	if err != nil {
		return err
	}
	turn := bridge.Color(st.Pos.White)
	// encode: the standard FEN of this position
	enc := fen.Encode(pos, turn, st.Half, st.Full)
	if enc != c.FEN {
		return fmt.Errorf("fen.Encode gives %q, standard FEN is %q", enc, c.FEN)
	}
	// encode -> decode: identical position, side, clocks
	p2, t2, h2, f2, err := fen.Decode(enc)
	if err != nil || p2 == nil {
		return fmt.Errorf("fen.Decode(fen.Encode(x)) fails: %v (%q)", err, enc)
	}
	if *p2 != *pos || t2 != turn || h2 != st.Half || f2 != st.Full {
		return fmt.Errorf("decode(encode(x)) != x for %q: got %v %v %d %d", enc, p2, t2, h2, f2)
	}
	if err := viewsAgree(p2); err != nil {
		return fmt.Errorf("decoded %q: %v", enc, err)
	}
	// decode a canonical FEN -> same content as the oracle's reading, re-encode reproduces the string
	p3, t3, h3, f3, err := fen.Decode(c.FEN)
	if err != nil || p3 == nil {
		return fmt.Errorf("fen.Decode(%q) fails: %v", c.FEN, err)
	}
	if got := bridge.OPos(p3, t3); got != st.Pos || h3 != st.Half || f3 != st.Full {
		return fmt.Errorf("fen.Decode(%q) reads %s %d %d", c.FEN, got.KeyFEN(), h3, f3)
	}
	if re := fen.Encode(p3, t3, h3, f3); re != c.FEN {
		return fmt.Errorf("encode(decode(%q)) = %q", c.FEN, re)
	}
	var labels []string
	if st.Pos.EP >= 0 {
		labels = append(labels, "ep-square")
	}
	nr := 0
	for _, r := range []bool{st.Pos.WK, st.Pos.WQ, st.Pos.BK, st.Pos.BQ} {
		if r {
			nr++
		}
	}
	if nr > 0 && nr < 4 {
		labels = append(labels, "partial-rights")
	}
	if !st.Pos.White {
		labels = append(labels, "black-to-move")
	}
	if st.Half >= 100 || st.Full >= 100 || st.Full == 0 {
		labels = append(labels, "unusual-clocks")
	}
	stats.Case("C14/roundtrip", stats.FP(c.FEN), len(labels) > 0, labels...)
	return nil
})

func TestC14_roundtrip(t *testing.T) {
	runRapid(t, "C14/roundtrip", 160000, func(t *rapid.T) fenCase {
		var st oracle.State
		if rapid.IntRange(0, 2).Draw(t, "src") == 0 {
			st = gen.Synth(t)
		} else {
			_, g := gen.Game(t, 50)
			st = *g.Cur()
		}
		st.Half = rapid.IntRange(0, 150).Draw(t, "half")
		st.Full = rapid.IntRange(0, 600).Draw(t, "full")
		if rapid.IntRange(0, 9).Draw(t, "bigclocks") == 0 {
			// the FEN counters are plain non-negative integers: the boundaries of the integer widths
			big := []int{127, 128, 255, 256, 300, 32767, 32768, 65535, 65536, 1 << 31, 1<<31 - 1, 1 << 40, 1<<62 + 1}
			st.Half = rapid.SampledFrom(big).Draw(t, "bighalf")
			st.Full = rapid.SampledFrom(big).Draw(t, "bigfull")
		}
		return fenCase{FEN: st.FEN()}
	}, func(c fenCase) error {
		stats.Sample("C14/roundtrip", c.FEN)
		return checkC14RoundTrip(c)
	})
}

// engineOps: Reset / Move / TakeBack programs on an engine.
type engineOp struct {
	Op  string `json:"op"` // reset | move | takeback
	Arg string `json:"arg,omitempty"`
}

type engineCase struct {
	Ops []engineOp `json:"ops"`
}

func newPlainEngine(opts ...engine.Option) *engine.Engine {
	s := search.AlphaBeta{Eval: search.Leaf{Eval: eval.Material{}}}
	return engine.New(context.Background(), "verif", "verif", s, opts...)
}

var checkC14Engine = def("C14/engine", func(c engineCase) error {
	ctx := context.Background()
	e := newPlainEngine()
	g := oracle.NewGame(oracle.MustFEN(oracle.InitialFEN))
	var labels []string
	for i, op := range c.Ops {
		switch op.Op {
		case "reset":
			st, err := oracle.ParseFEN(op.Arg)
			if err != nil {
				return fmt.Errorf("case: %v", err)
			}
			if err := e.Reset(ctx, op.Arg); err != nil {
				return fmt.Errorf("op %d: Reset(%q): %v", i, op.Arg, err)
			}
			g = oracle.NewGame(st)
			if !st.Pos.White {
				labels = append(labels, "reset-black-to-move")
			}
			if st.Half > 0 {
				labels = append(labels, "reset-with-clock")
			}
		case "move":
			om, ok := g.Cur().Pos.FindMove(op.Arg)
			if !ok {
				return fmt.Errorf("case: op %d move %s not legal", i, op.Arg)
			}
			if err := e.Move(ctx, op.Arg); err != nil {
				return fmt.Errorf("op %d: legal move %s rejected: %v", i, op.Arg, err)
			}
			g.Push(om)
			switch {
			case om.Kind == oracle.CastleK || om.Kind == oracle.CastleQ:
				labels = append(labels, "castle")
			case om.Captured != 0:
				labels = append(labels, "capture")
			case om.Piece == oracle.Pawn:
				labels = append(labels, "pawn-move")
			}
		case "takeback":
			err := e.TakeBack(ctx)
			if ok := g.Pop(); ok != (err == nil) {
				return fmt.Errorf("op %d: TakeBack error=%v with %d moves played", i, err, len(g.Moves))
			}
			labels = append(labels, "takeback")
		default:
			return fmt.Errorf("case: op %q", op.Op)
		}
		if got, want := e.Position(), g.Cur().FEN(); got != want {
			return fmt.Errorf("op %d (%s %s): Engine.Position()=%q, standard FEN of the game is %q", i, op.Op, op.Arg, got, want)
		}
	}
	labels = dedup(labels)
	has := map[string]bool{}
	for _, l := range labels {
		has[l] = true
	}
	nt := has["castle"] || (has["capture"] && has["takeback"]) || has["reset-black-to-move"]
	stats.Case("C14/engine", stats.FP(fmt.Sprint(c.Ops)), nt, labels...)
	stats.Note("C14/engine", "ops", int64(len(c.Ops)))
	return nil
})

func genEngineCase(t *rapid.T) engineCase {
	var c engineCase
	g := oracle.NewGame(oracle.MustFEN(oracle.InitialFEN))
	pol := gen.DrawPolicy(t)
	n := rapid.IntRange(1, 80).Draw(t, "nops")
	for i := 0; i < n; i++ {
		k := rapid.IntRange(0, 29).Draw(t, "kind")
		switch {
		case k == 0 || (i == 0 && k < 15):
			st := gen.Start(t)
			st.Half = rapid.SampledFrom([]int{0, 0, 1, 17, 98, 99, 100, 127, 254, 255, 256, 299, 32767, 65535, 65536, 1<<31 - 1}).Draw(t, "half")
			st.Full = rapid.SampledFrom([]int{1, 1, 2, 40, 127, 255, 256, 32767, 65535, 65536, 1<<31 - 1}).Draw(t, "full")
			g = oracle.NewGame(st)
			c.Ops = append(c.Ops, engineOp{Op: "reset", Arg: st.FEN()})
		case k <= 4:
			g.Pop()
			c.Ops = append(c.Ops, engineOp{Op: "takeback"})
		default:
			m, ok := gen.PickMove(t, g, pol)
			if !ok {
				continue
			}
			g.Push(m)
			c.Ops = append(c.Ops, engineOp{Op: "move", Arg: m.String()})
		}
	}
	return c
}

func TestC14_engine(t *testing.T) {
	runRapid(t, "C14/engine", 32000, genEngineCase, func(c engineCase) error {
		stats.Sample("C14/engine", c)
		return checkC14Engine(c)
	})
}

// C14/concurrent: the engine serialises its methods (one mutex), so a FEN asked for by another
// goroutine while moves are played and taken back is the FEN of some state the game was in -
// never a mixture of two.
type concFenCase struct {
	FEN     string   `json:"fen"`
	Moves   []string `json:"moves"`
	Laps    int      `json:"laps"`    // the writer plays the line forward and takes it all back, this many times
	Readers int      `json:"readers"` // goroutines asking for the position meanwhile
}

var checkC14Concurrent = def("C14/concurrent", func(c concFenCase) error {
	ctx := context.Background()
	st, err := oracle.ParseFEN(c.FEN)
	if err != nil {
		return fmt.Errorf("case: %v", err)
	}
	g := oracle.NewGame(st)
	valid := map[string]bool{g.Cur().FEN(): true}
	for _, mv := range c.Moves {
		om, ok := g.Cur().Pos.FindMove(mv)
		if !ok {
			return fmt.Errorf("case: move %s not legal", mv)
		}
		g.Push(om)
		valid[g.Cur().FEN()] = true
	}
	e := newPlainEngine()
	if err := e.Reset(ctx, c.FEN); err != nil {
		return err
	}
	var stop atomic.Bool
	var wg sync.WaitGroup
	bad := make([]string, c.Readers)
	reads := make([]int64, c.Readers)
	for r := 0; r < c.Readers; r++ {
		r := r
		wg.Add(1)
		go func() {
			defer wg.Done()
			for !stop.Load() {
				f := e.Position()
				reads[r]++
				if !valid[f] {
					bad[r] = f
					return
				}
			}
		}()
	}
	var werr error
writer:
	for lap := 0; lap < c.Laps; lap++ {
		for _, mv := range c.Moves {
			if werr = e.Move(ctx, mv); werr != nil {
				break writer
			}
		}
		for range c.Moves {
			if werr = e.TakeBack(ctx); werr != nil {
				break writer
			}
		}
	}
	stop.Store(true)
	wg.Wait()
	if werr != nil {
		return fmt.Errorf("writer: %v", werr)
	}
	var total int64
	for r := range bad {
		total += reads[r]
		if bad[r] != "" {
			return fmt.Errorf("while moves were played and taken back, Engine.Position() reported %q, which is the FEN of no state of this game (start %s, line %v)", bad[r], c.FEN, c.Moves)
		}
	}
	if got := e.Position(); got != c.FEN {
		return fmt.Errorf("after %d laps of play and take-back Engine.Position()=%q, start was %q", c.Laps, got, c.FEN)
	}
	stats.Case("C14/concurrent", stats.FP(c.FEN, fmt.Sprint(c.Moves), c.Laps, c.Readers), total > 0 && len(c.Moves) > 0, fmt.Sprintf("readers:%d", c.Readers))
	stats.Note("C14/concurrent", "concurrent_reads", total)
	stats.Note("C14/concurrent", "writer_ops", int64(2*c.Laps*len(c.Moves)))
	return nil
})

func TestC14_concurrent(t *testing.T) {
	runRapid(t, "C14/concurrent", 640, func(t *rapid.T) concFenCase {
		gc, _ := gen.Game(t, 24)
		if len(gc.Moves) == 0 {
			gc, _ = gen.Play(t, oracle.MustFEN(oracle.InitialFEN), 6, gen.DrawPolicy(t))
		}
		return concFenCase{FEN: gc.FEN, Moves: gc.Moves, Laps: rapid.IntRange(20, 120).Draw(t, "laps"), Readers: rapid.IntRange(1, 4).Draw(t, "readers")}
	}, func(c concFenCase) error {
		stats.Sample("C14/concurrent", c)
		return checkC14Concurrent(c)
	})
}

// C14/racingmoves: two callers offer a move at the same moment. The engine serialises them:
// what it reports afterwards is the FEN of the game in which the accepted moves were played one
// after the other, in some order - a move that is not legal once the other has been played must
// have been refused.
type racingCase struct {
	FEN   string   `json:"fen"`
	Moves []string `json:"moves"` // the game so far
	A, B  string   // offered simultaneously
	Reps  int      `json:"reps"`
}

var checkC14Racing = def("C14/racingmoves", func(c racingCase) error {
	ctx := context.Background()
	g, err := gen.GameCase{FEN: c.FEN, Moves: c.Moves}.Build()
	if err != nil {
		return err
	}
	// the outcomes the rules allow: for each order, play what is legal when its turn comes
	valid := map[string]string{}
	for _, order := range [][2]string{{c.A, c.B}, {c.B, c.A}} {
		gg := g.Clone()
		desc := ""
		for _, mv := range order {
			if m, ok := gg.Cur().Pos.FindMove(mv); ok {
				gg.Push(m)
				desc += mv + " accepted; "
			} else {
				desc += mv + " refused; "
			}
		}
		valid[gg.Cur().FEN()] = desc
	}
	e := newPlainEngine()
	both := 0
	for rep := 0; rep < max(1, c.Reps); rep++ {
		if err := e.Reset(ctx, c.FEN); err != nil {
			return err
		}
		for _, mv := range c.Moves {
			if err := e.Move(ctx, mv); err != nil {
				return err
			}
		}
		var wg sync.WaitGroup
		var start atomic.Bool
		errs := make([]error, 2)
		for k, mv := range []string{c.A, c.B} {
			k, mv := k, mv
			wg.Add(1)
			go func() {
				defer wg.Done()
				for !start.Load() {
				}
				errs[k] = e.Move(ctx, mv)
			}()
		}
		start.Store(true)
		wg.Wait()
		got := e.Position()
		if _, ok := valid[got]; !ok {
			return fmt.Errorf("%s and %s offered at the same moment at %s (answers: %v, %v): the engine reports %q, which is the outcome of neither order (%v)", c.A, c.B, g.Cur().FEN(), errs[0], errs[1], got, valid)
		}
		if errs[0] == nil && errs[1] == nil {
			both++
		}
	}
	_, aLegal := g.Cur().Pos.FindMove(c.A)
	_, bLegal := g.Cur().Pos.FindMove(c.B)
	stats.Case("C14/racingmoves", stats.FP(c.FEN, fmt.Sprint(c.Moves), c.A, c.B), aLegal && bLegal && c.A != c.B, "two-legal-moves-raced")
	return nil
})

func TestC14_racingmoves(t *testing.T) {
	runRapid(t, "C14/racingmoves", 800, func(t *rapid.T) racingCase {
		gc, g := gen.Game(t, 30)
		legal := g.Cur().Pos.Legal()
		c := racingCase{FEN: gc.FEN, Moves: gc.Moves, Reps: rapid.IntRange(20, 200).Draw(t, "reps")}
		if len(legal) == 0 {
			return c
		}
		c.A = legal[rapid.IntRange(0, len(legal)-1).Draw(t, "a")].String()
		c.B = legal[rapid.IntRange(0, len(legal)-1).Draw(t, "b")].String()
		return c
	}, func(c racingCase) error {
		if c.A == "" {
			stats.Case("C14/racingmoves", 0, false, "no-legal-move")
			return nil
		}
		stats.Sample("C14/racingmoves", c)
		return checkC14Racing(c)
	})
}
