package props

import (
	"context"
	"fmt"
	"testing"
	"time"

	"github.com/herohde/morlock/pkg/engine"
	"github.com/herohde/morlock/pkg/search"
	"github.com/herohde/morlock/pkg/search/searchctl"
	"github.com/seekerror/stdlib/pkg/lang"
	"pgregory.net/rapid"
	"verifharness/bridge"
	"verifharness/stats"
)

// C15/again: the SECOND and later analyses of an engine with the hash table on. Whatever an
// earlier (deeper) analysis left in the table, an analysis searches depth 1, 2, 3, ... in that
// order, reports each, and ends by itself exactly at its own depth limit (or at a forced mate
// within the searched depth, judged by the scores it reports itself).
type againCase struct {
	searchCase        // Depth = limit of the first analysis
	Plies      int    `json:"plies"`  // moves of the first analysis' variation played before the second one
	Limit      int    `json:"limit"`  // depth limit of the second analysis
	Hash       uint   `json:"hash_mb"`
}

// runGated drives one depth-limited analysis iteration by iteration and returns its reports.
func runGated(e *engine.Engine, gs *gatedSearch, limit int, where string) ([]search.PV, error) {
	ctx := context.Background()
	out, err := e.Analyze(ctx, searchctl.Options{DepthLimit: lang.Some(uint(limit))})
	if err != nil {
		return nil, fmt.Errorf("%s: Analyze: %v", where, err)
	}
	defer e.Halt(ctx)
	var got []search.PV
	for d := 1; ; d++ {
		select {
		case ev := <-gs.entering:
			if ev.depth != d {
				close(ev.release)
				return got, fmt.Errorf("%s: iteration number %d of the analysis searches depth %d", where, d, ev.depth)
			}
			if d > limit {
				close(ev.release)
				return got, fmt.Errorf("%s: the analysis starts depth %d although its limit is %d", where, d, limit)
			}
			close(ev.release)
		case pv, ok := <-out:
			if ok {
				return got, fmt.Errorf("%s: report %v without a search", where, pv)
			}
			// ended by itself: allowed after the limit or a forced mate
			if len(got) == 0 {
				return got, fmt.Errorf("%s: the analysis ended without a report", where)
			}
			last := got[len(got)-1]
			md, mate := last.Score.MateDistance()
			if last.Depth != limit && !(mate && int(md) <= last.Depth) {
				return got, fmt.Errorf("%s: the analysis ended by itself after depth %d (score %v), limit %d", where, last.Depth, last.Score, limit)
			}
			return got, nil
		case <-time.After(liveness):
			return got, fmt.Errorf("%s: the analysis neither searches nor ends after %d reports", where, len(got))
		}
		select {
		case pv, ok := <-out:
			if !ok {
				return got, fmt.Errorf("%s: the stream ended without a report for depth %d", where, d)
			}
			if pv.Depth != d {
				return got, fmt.Errorf("%s: report for depth %d after searching depth %d", where, pv.Depth, d)
			}
			got = append(got, pv)
			if md, mate := pv.Score.MateDistance(); d < limit && mate && int(md) <= d {
				// must end here
				select {
				case _, ok := <-out:
					if ok {
						return got, fmt.Errorf("%s: another report after a forced mate within depth %d", where, d)
					}
					return got, nil
				case ev := <-gs.entering:
					close(ev.release)
					return got, fmt.Errorf("%s: goes on to depth %d after reporting %v at depth %d", where, ev.depth, pv.Score, d)
				case <-time.After(liveness):
					return got, fmt.Errorf("%s: neither ends nor goes on after a forced mate", where)
				}
			}
		case <-time.After(liveness):
			return got, fmt.Errorf("%s: no report for depth %d", where, d)
		}
	}
}

var checkC15Again = def("C15/again", func(c againCase) error {
	_, g, cfg, err := setupSearch(c.searchCase)
	if err == errDiscard {
		stats.Case("C15/again", 0, false, "discarded-sticky-draw-root")
		return nil
	}
	if err != nil {
		return err
	}
	if !g.Cur().Pos.HasLegal() {
		stats.Case("C15/again", 0, false, "terminal-root")
		return nil
	}
	ctx := context.Background()
	inner, _ := cfg.make(c.Param)
	gs := newGatedSearch(inner, 1)
	e := engine.New(ctx, "verif", "verif", gs, engine.WithOptions(engine.Options{Hash: c.Hash}))
	if err := e.Reset(ctx, c.FEN); err != nil {
		return err
	}
	for _, mv := range c.Moves {
		if err := e.Move(ctx, mv); err != nil {
			return err
		}
	}
	where := fmt.Sprintf("%s, Hash %d MB, at %s", c.Config, c.Hash, e.Position())
	first, err := runGated(e, gs, max(1, c.Depth), where+": first analysis, limit "+fmt.Sprint(c.Depth))
	if err != nil {
		return err
	}
	played := 0
	if len(first) > 0 {
		for _, m := range first[len(first)-1].Moves {
			if played >= c.Plies {
				break
			}
			if err := e.Move(ctx, bridge.Text(m)); err != nil {
				break
			}
			played++
		}
	}
	if len(e.Board().Position().LegalMoves(e.Board().Turn())) == 0 {
		stats.Case("C15/again", 0, false, "terminal-after-variation")
		return nil
	}
	where2 := fmt.Sprintf("%s: analysis with limit %d after an analysis of depth %d and %d moves of its variation, now at %s", where, c.Limit, len(first), played, e.Position())
	second, err := runGated(e, gs, max(1, c.Limit), where2)
	if err != nil {
		return err
	}
	labels := []string{"cfg:" + c.Config, fmt.Sprintf("moves-between:%d", played)}
	shallower := len(first)-played > len(second) && len(first)-played >= 2
	if shallower {
		labels = append(labels, "second-limit-below-what-the-table-holds")
	}
	stats.Case("C15/again", stats.FP(c.FEN, fmt.Sprint(c.Moves), c.Config, c.Param, c.Depth, c.Plies, c.Limit, c.Hash), len(first) >= 2, labels...)
	return nil
})

func TestC15_again(t *testing.T) {
	runRapid(t, "C15/again", 1500, func(t *rapid.T) againCase {
		sc := genSearchCase(t, searchConfigs)
		sc.Depth = max(1, min(sc.Depth, 5))
		return againCase{searchCase: sc, Plies: rapid.IntRange(0, 2).Draw(t, "plies"),
			Limit: rapid.IntRange(1, max(1, min(sc.Depth, 4))).Draw(t, "limit"), Hash: uint(rapid.SampledFrom([]int{1, 1, 2, 0}).Draw(t, "hash"))}
	}, func(c againCase) error {
		stats.Sample("C15/again", c)
		return checkC15Again(c)
	})
}
