package props

import (
	"crypto/sha1"
	"encoding/json"
	"flag"
	"fmt"
	"os"
	"path/filepath"
	"runtime/debug"
	"strconv"
	"strings"
	"sync"
	"testing"
	"time"

	"pgregory.net/rapid"
	"verifharness/stats"
)

// ---------------------------------------------------------------------------------------
// Process set-up.

func TestMain(m *testing.M) {
	flag.Parse()
	// before anything else touches the repository's code (not in fuzz workers, which restart often)
	if f := flag.Lookup("test.fuzz"); f == nil || f.Value.String() == "" {
		coldStart()
	}
	// The repository logs through glog. Keep it away from /tmp and from our verdict
	// channel: logs go to the os.Stderr *variable*, which we point at /dev/null; runtime
	// panics and race reports are written to file descriptor 2 directly and stay visible.
	if f := flag.Lookup("logtostderr"); f != nil {
		_ = f.Value.Set("true")
	}
	// (the native fuzz coordinator reports progress on os.Stderr and does not run targets itself)
	coordinator := false
	if f := flag.Lookup("test.fuzz"); f != nil && f.Value.String() != "" {
		if w := flag.Lookup("test.fuzzworker"); w == nil || w.Value.String() != "true" {
			coordinator = true
		}
	}
	if os.Getenv("VERIF_KEEP_LOGS") == "" && !coordinator {
		if null, err := os.OpenFile(os.DevNull, os.O_WRONLY, 0); err == nil {
			realStderr = os.Stderr // keep it referenced: a collected *os.File closes descriptor 2
			os.Stderr = null
		}
	}
	code := m.Run()
	stats.Flush()
	os.Exit(code)
}

var realStderr *os.File

func envInt(name string, def int) int {
	if v, err := strconv.Atoi(os.Getenv(name)); err == nil {
		return v
	}
	return def
}

func envFloat(name string, def float64) float64 {
	if v, err := strconv.ParseFloat(os.Getenv(name), 64); err == nil {
		return v
	}
	return def
}

// thorough reports the tier.
func thorough() bool { return os.Getenv("VERIF_TIER") == "thorough" }

// shard returns (index, count) for exhaustive enumerations split over processes.
func shard() (int, int) {
	return envInt("VERIF_SHARD", 0), max(1, envInt("VERIF_SHARDS", 1))
}

// checks scales a per-run base count (the total wanted in the quick tier over all shards)
// to this process: base * VERIF_SCALE / shards.
func checks(base int) int {
	_, n := shard()
	c := int(float64(base) * envFloat("VERIF_SCALE", 1) / float64(n))
	if c < 1 {
		c = 1
	}
	return c
}

func verifRoot() string {
	if r := os.Getenv("VERIF_ROOT"); r != "" {
		return r
	}
	return "/verif"
}

// ---------------------------------------------------------------------------------------
// Registry: every check is a plain function over a JSON-serialisable case.

var registry = map[string]func(raw json.RawMessage) error{}

// def registers check under key ("C07/walk") and returns a panic-safe version of it.
func def[C any](key string, check func(c C) error) func(C) error {
	safe := func(c C) (err error) {
		defer func() {
			if r := recover(); r != nil {
				err = fmt.Errorf("panic: %v\n%s", r, trimStack(debug.Stack()))
			}
		}()
		return check(c)
	}
	registry[key] = func(raw json.RawMessage) error {
		var c C
		if err := json.Unmarshal(raw, &c); err != nil {
			return fmt.Errorf("replay: cannot decode case: %v", err)
		}
		return safe(c)
	}
	return safe
}

func trimStack(b []byte) string {
	lines := strings.Split(string(b), "\n")
	if len(lines) > 40 {
		lines = lines[:40]
	}
	return strings.Join(lines, "\n")
}

type failure struct {
	Property string          `json:"property"`
	Check    string          `json:"check"`
	Error    string          `json:"error"`
	Seed     int             `json:"verif_seed"`
	Case     json.RawMessage `json:"case"`
}

var (
	failMu   sync.Mutex
	lastFail = map[string]*failure{}
)

// caseErr lets a check substitute a narrower case for the replay file (e.g. the single
// cancellation point that failed out of the enumerated ones).
type caseErr struct {
	error
	c any
}

func withCase(err error, c any) error { return &caseErr{err, c} }

func noteFailure(key string, c any, err error) {
	if ce, ok := err.(*caseErr); ok {
		c = ce.c
	}
	raw, jerr := json.Marshal(c)
	if jerr != nil {
		raw, _ = json.Marshal(fmt.Sprintf("%+v", c))
	}
	failMu.Lock()
	defer failMu.Unlock()
	lastFail[key] = &failure{
		Property: strings.SplitN(key, "/", 2)[0],
		Check:    key,
		Error:    err.Error(),
		Seed:     envInt("VERIF_SEED", 1),
		Case:     raw,
	}
}

// emitViolation writes the replay file for the last recorded failure of key and prints the
// VIOLATION line the driver looks for.
func emitViolation(key string) {
	failMu.Lock()
	f := lastFail[key]
	failMu.Unlock()
	if f == nil {
		return
	}
	data, _ := json.MarshalIndent(f, "", " ")
	sum := sha1.Sum(f.Case)
	dir := filepath.Join(verifRoot(), "replays")
	_ = os.MkdirAll(dir, 0o755)
	path := filepath.Join(dir, fmt.Sprintf("%s-%x.json", strings.ReplaceAll(key, "/", "-"), sum[:5]))
	_ = os.WriteFile(path, data, 0o644)
	fmt.Printf("VIOLATION property=%s replay=%s\n", f.Property, path)
	fmt.Printf("VIOLATION-DETAIL check=%s error=%s\n", key, firstLine(f.Error))
}

func firstLine(s string) string {
	if i := strings.IndexByte(s, '\n'); i >= 0 {
		return s[:i]
	}
	return s
}

// runRapid drives check with rapid: base is the number of cases wanted in a quick run.
// On failure rapid shrinks; its final re-run of the minimal case is the one recorded.
func runRapid[C any](t *testing.T, key string, base int, gen func(t *rapid.T) C, check func(C) error) {
	t.Helper()
	_ = flag.Set("rapid.checks", strconv.Itoa(checks(base)))
	_ = flag.Set("rapid.nofailfile", "true")
	defer func() {
		if t.Failed() {
			emitViolation(key)
		}
	}()
	rapid.Check(t, func(rt *rapid.T) {
		c := gen(rt)
		start := time.Now()
		err := check(c)
		if d := time.Since(start); d > 3*time.Second {
			stats.Note(key, "cases_slower_than_3s", 1)
			if os.Getenv("VERIF_SLOW") != "" {
				raw, _ := json.Marshal(c)
				fmt.Printf("SLOW %s %v %s\n", key, d, raw)
			}
		}
		if err != nil {
			noteFailure(key, c, err)
			rt.Fatalf("%s: %v", key, err)
		}
	})
}

// failCase reports a violation found outside rapid (exhaustive enumerations, stress runs).
func failCase(t *testing.T, key string, c any, err error) {
	t.Helper()
	noteFailure(key, c, err)
	emitViolation(key)
	t.Fatalf("%s: %v", key, err)
}

// TestReplay re-runs one saved case, bypassing the generators.
func TestReplay(t *testing.T) {
	path := os.Getenv("VERIF_REPLAY")
	if path == "" {
		t.Skip("no VERIF_REPLAY")
	}
	data, err := os.ReadFile(path)
	if err != nil {
		t.Fatalf("replay: %v", err)
	}
	var f failure
	if err := json.Unmarshal(data, &f); err != nil {
		t.Fatalf("replay: %v", err)
	}
	fn := registry[f.Check]
	if fn == nil {
		t.Fatalf("replay: unknown check %q", f.Check)
	}
	if err := fn(f.Case); err != nil {
		fmt.Printf("REPLAY-FAILS check=%s error=%s\n", f.Check, firstLine(err.Error()))
		t.Fatalf("%s: %v", f.Check, err)
	}
	fmt.Printf("REPLAY-PASSES check=%s\n", f.Check)
}
