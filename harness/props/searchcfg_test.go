package props

import (
	"context"
	"fmt"

	"github.com/herohde/morlock/cmd/bernstein/bernstein"
	"github.com/herohde/morlock/cmd/sargon/sargon"
	"github.com/herohde/morlock/cmd/turochamp/turochamp"
	"github.com/herohde/morlock/pkg/board"
	"github.com/herohde/morlock/pkg/eval"
	"github.com/herohde/morlock/pkg/search"
	"verifharness/refsearch"
)

// SynthEval is a harness evaluator that is a pure function of the position (placement,
// side to move, castling rights, e.p. target): an avalanche hash mapped to quarter pawns
// in [-25, 25]. It makes almost all leaves distinct, which the coarse material count does not.
type SynthEval struct{}

func mix64(x uint64) uint64 {
	x ^= x >> 30
	x *= 0xbf58476d1ce4e5b9
	x ^= x >> 27
	x *= 0x94d049bb133111eb
	x ^= x >> 31
	return x
}

func (SynthEval) Evaluate(ctx context.Context, b *board.Board) eval.Pawns {
	pos := b.Position()
	h := uint64(0x9E3779B97F4A7C15)
	for c := board.ZeroColor; c < board.NumColors; c++ {
		for p := board.ZeroPiece; p < board.NumPieces; p++ {
			h = mix64(h ^ uint64(pos.Piece(c, p)) + uint64(c)*7 + uint64(p))
		}
	}
	ep, _ := pos.EnPassant()
	h = mix64(h ^ uint64(pos.Castling())<<8 ^ uint64(ep)<<16 ^ uint64(b.Turn())<<32)
	return eval.Pawns(float32(int(h%201)-100) / 4)
}

// captureOnly is a quiescence exploration: captures (incl. e.p. and capture-promotions).
func captureOnly(ctx context.Context, b *board.Board) (board.MovePriorityFn, board.MovePredicateFn) {
	return search.MVVLVA, board.Move.IsCaptureOrEnPassant
}

// capturesAndQuietNonChecks explores captures, and quiet moves that do not give check (judged on
// the board with the move made: the side to move there is the opponent).
func capturesAndQuietNonChecks(ctx context.Context, b *board.Board) (board.MovePriorityFn, board.MovePredicateFn) {
	return search.MVVLVA, func(m board.Move) bool {
		return m.IsCaptureOrEnPassant() || !b.Position().IsChecked(b.Turn())
	}
}

// searchConfig names one way the engine can be configured, with the matching reference.
type searchConfig struct {
	Name string
	// Heavy evaluators get smaller trees.
	Heavy bool
	// PositionDetermined: admissible for the transposition-table properties.
	PositionDetermined bool
	// Quiescence: the leaf is a quiescence search (a window reaches it).
	Quiescence bool
	// Minimax: the naive search (no window, no table); only used where the property names it.
	Minimax bool
	make       func(param int) (search.Search, refsearch.Config)
}

var searchConfigs = []searchConfig{
	{Name: "material", PositionDetermined: true, make: func(int) (search.Search, refsearch.Config) {
		return search.AlphaBeta{Eval: search.Leaf{Eval: eval.Material{}}},
			refsearch.Config{Leaf: refsearch.LeafStatic, Eval: eval.Material{}}
	}},
	{Name: "synth", PositionDetermined: true, make: func(int) (search.Search, refsearch.Config) {
		return search.AlphaBeta{Eval: search.Leaf{Eval: SynthEval{}}},
			refsearch.Config{Leaf: refsearch.LeafStatic, Eval: SynthEval{}}
	}},
	{Name: "synth-skipunder", PositionDetermined: true, make: func(int) (search.Search, refsearch.Config) {
		return search.AlphaBeta{Explore: sargon.SkipUnderPromotions, Eval: search.Leaf{Eval: SynthEval{}}},
			refsearch.Config{Explore: sargon.SkipUnderPromotions, Leaf: refsearch.LeafStatic, Eval: SynthEval{}}
	}},
	// a selective main search whose predicate LOOKS AT THE BOARD: it is documented to be asked with
	// the move already made ("post move when called"), as the reference does
	{Name: "synth-quietnochecks", PositionDetermined: true, make: func(int) (search.Search, refsearch.Config) {
		return search.AlphaBeta{Explore: capturesAndQuietNonChecks, Eval: search.Leaf{Eval: SynthEval{}}},
			refsearch.Config{Explore: capturesAndQuietNonChecks, Leaf: refsearch.LeafStatic, Eval: SynthEval{}}
	}},
	{Name: "synth-capturequiescence", PositionDetermined: true, Quiescence: true, make: func(int) (search.Search, refsearch.Config) {
		return search.AlphaBeta{Eval: search.Quiescence{Explore: captureOnly, Eval: search.Leaf{Eval: SynthEval{}}}},
			refsearch.Config{Leaf: refsearch.LeafQuiescence, QuietExplore: captureOnly, Eval: SynthEval{}}
	}},
	{Name: "material-capturequiescence", PositionDetermined: true, Quiescence: true, make: func(int) (search.Search, refsearch.Config) {
		return search.AlphaBeta{Eval: search.Quiescence{Explore: captureOnly, Eval: search.Leaf{Eval: eval.Material{}}}},
			refsearch.Config{Leaf: refsearch.LeafQuiescence, QuietExplore: captureOnly, Eval: eval.Material{}}
	}},
	{Name: "minimax-material", Minimax: true, make: func(int) (search.Search, refsearch.Config) {
		return search.Minimax{Eval: search.Leaf{Eval: eval.Material{}}},
			refsearch.Config{Leaf: refsearch.LeafStatic, Eval: eval.Material{}}
	}},
	{Name: "bernstein", Heavy: true, PositionDetermined: true, make: func(limit int) (search.Search, refsearch.Config) {
		ex := bernstein.PlausibleMoveTable{Limit: limit}.Explore
		ev := bernstein.Eval{Factor: 20}
		return search.AlphaBeta{Explore: ex, Eval: search.Leaf{Eval: ev}},
			refsearch.Config{Explore: ex, Leaf: refsearch.LeafStatic, Eval: ev}
	}},
	{Name: "turochamp", Heavy: true, Quiescence: true, make: func(int) (search.Search, refsearch.Config) {
		return search.AlphaBeta{Eval: search.Quiescence{Explore: turochamp.ConsiderableMovesOnly, Eval: search.Leaf{Eval: turochamp.Eval{}}}},
			refsearch.Config{Leaf: refsearch.LeafQuiescence, QuietExplore: turochamp.ConsiderableMovesOnly, Eval: turochamp.Eval{}}
	}},
	{Name: "sargon", Heavy: true, make: func(int) (search.Search, refsearch.Config) {
		p1 := &sargon.Points{}
		s := sargon.Hook{Eval: search.AlphaBeta{Explore: sargon.SkipUnderPromotions, Eval: sargon.OnePlyIfChecked{Leaf: search.Leaf{Eval: p1}}}, Hook: p1}
		p2 := &sargon.Points{} // separate state for the reference; reset by prepareRef
		return s, refsearch.Config{Explore: sargon.SkipUnderPromotions, Leaf: refsearch.LeafOnePlyIfChecked, Eval: p2}
	}},
}

// abConfigs are the alpha-beta configurations (everything except the naive minimax).
var abConfigs = func() []searchConfig {
	var ret []searchConfig
	for _, c := range searchConfigs {
		if !c.Minimax {
			ret = append(ret, c)
		}
	}
	return ret
}()

func findConfig(name string) (searchConfig, error) {
	for _, c := range searchConfigs {
		if c.Name == name {
			return c, nil
		}
	}
	return searchConfig{}, fmt.Errorf("case: unknown search configuration %q", name)
}

// prepareRef performs per-search initialisation of the reference evaluator (SARGON keeps
// per-search state that the engine resets through its hook).
func prepareRef(cfg *refsearch.Config, b *board.Board) {
	if p, ok := cfg.Eval.(*sargon.Points); ok {
		p.Reset(context.Background(), b)
	}
}
