package props

import (
	"bufio"
	"bytes"
	"fmt"
	"io"
	"os"
	"os/exec"
	"path/filepath"
	"strings"
	"sync"
	"testing"
	"time"

	"pgregory.net/rapid"
	"verifharness/gen"
	"verifharness/oracle"
	"verifharness/stats"
)

// goRound: set up a position, start a search, let it end by itself or stop it.
type goRound struct {
	NewGame  bool     `json:"ucinewgame,omitempty"`
	Pos      *posCmd  `json:"position,omitempty"` // nil: go again on the position last set up
	Options  []string `json:"setoption,omitempty"`
	Go       string   `json:"go"`
	End      string   `json:"end"`       // self | stop
	DelayUS  int      `json:"delay_us"`  // real time between go and stop
	SettleUS int      `json:"settle_us"` // real time after the round (lets stale timers fire)
}

type goCase struct {
	Engine string    `json:"engine"`
	Hash   uint      `json:"hash_mb"`
	Noise  uint      `json:"noise"`
	Rounds []goRound `json:"rounds"`
}

// endsByItself: does this go line end without a stop for this engine?
func endsByItself(goLine string, defaultDepth int) bool {
	f := strings.Fields(goLine)
	for i, tok := range f {
		switch tok {
		case "infinite":
			return false
		case "depth", "movetime", "wtime", "btime":
			if i+1 < len(f) {
				return true
			}
		}
	}
	return defaultDepth > 0
}

func bundleDefaultDepth(name string) int {
	switch name {
	case "morlock":
		return 0
	case "turochamp":
		return 2
	case "sargon":
		return 1
	default:
		return 2
	}
}

func bestmoves(lines []string) []string {
	var ret []string
	for _, l := range lines {
		if strings.HasPrefix(l, "bestmove") {
			ret = append(ret, l)
		}
	}
	return ret
}

// judgeBestmove: the move is legal in the position last set up; null move only without legal moves.
func judgeBestmove(line string, g *oracle.Game) error {
	f := strings.Fields(line)
	if len(f) < 2 {
		return fmt.Errorf("malformed %q", line)
	}
	legal := g.Cur().Pos.Legal()
	if f[1] == "0000" {
		if len(legal) > 0 {
			return fmt.Errorf("%q (null move) although the position %s has %d legal moves", line, g.Cur().FEN(), len(legal))
		}
		return nil
	}
	for _, m := range legal {
		if m.String() == f[1] {
			return nil
		}
	}
	return fmt.Errorf("%q is not a legal move in %s", line, g.Cur().FEN())
}

// uciPeer is what the round runner needs from a driver, in-process or a real binary.
type uciPeer interface {
	send(line string) bool
	barrier() string
	snapshotLines() []string
	waitFor(pred func(lines []string, closed bool) bool, grace time.Duration) bool
	quit() bool
}

var checkC04 = def("C04/bestmove", func(c goCase) error {
	bd, err := findBundle(c.Engine)
	if err != nil {
		return err
	}
	e, opts := bd.make(c.Hash, c.Noise, 0, nil)
	s := newUCISession(e, opts...)
	defer s.quit()
	return runGoRounds("C04/bestmove", c, s)
})

func runGoRounds(key string, c goCase, s uciPeer) error {
	g := oracle.NewGame(oracle.MustFEN(oracle.InitialFEN))
	var labels []string
	gos := 0
	lastHadGo := false
	for i, r := range c.Rounds {
		if r.NewGame {
			s.send("ucinewgame")
		}
		for _, o := range r.Options {
			s.send(o)
		}
		if r.Pos != nil {
			ng, err := r.Pos.game()
			if err != nil {
				return err
			}
			g = ng
			if !s.send(r.Pos.text()) {
				return fmt.Errorf("round %d: driver no longer reads", i)
			}
			lastHadGo = false
		}
		if why := s.barrier(); why != "" {
			return fmt.Errorf("round %d: after set-up: %s", i, why)
		}
		before := len(bestmoves(s.snapshotLines()))
		if before != gos {
			return fmt.Errorf("round %d: %d bestmove lines so far for %d go commands: %v", i, before, gos, bestmoves(s.snapshotLines()))
		}
		if !s.send(r.Go) {
			return fmt.Errorf("round %d: driver no longer reads", i)
		}
		gos++
		where := fmt.Sprintf("round %d (%s, hash %d, noise %d): %q at %s", i, c.Engine, c.Hash, c.Noise, r.Go, g.Cur().FEN())
		self := endsByItself(r.Go, bundleDefaultDepth(c.Engine))
		switch r.End {
		case "self":
			if !self {
				return fmt.Errorf("case: %q does not end by itself", r.Go)
			}
		case "stop":
			if r.DelayUS > 0 {
				time.Sleep(time.Duration(r.DelayUS) * time.Microsecond)
			}
			if !s.send("stop") {
				return fmt.Errorf("%s: driver no longer reads", where)
			}
			if why := s.barrier(); why != "" {
				return fmt.Errorf("%s: after stop: %s", where, why)
			}
		default:
			return fmt.Errorf("case: end %q", r.End)
		}
		// the search has ended (by itself, or the stop has been processed): one bestmove
		if !s.waitFor(func(lines []string, closed bool) bool { return len(bestmoves(lines)) > before || closed }, uciGrace) {
			return fmt.Errorf("%s ended by %s: no bestmove within %v", where, r.End, uciGrace)
		}
		if why := s.barrier(); why != "" {
			return fmt.Errorf("%s: after the search ended: %s", where, why)
		}
		if r.SettleUS > 0 {
			time.Sleep(time.Duration(r.SettleUS) * time.Microsecond)
			if why := s.barrier(); why != "" {
				return fmt.Errorf("%s: %s", where, why)
			}
		}
		bms := bestmoves(s.snapshotLines())
		if len(bms) != before+1 {
			return fmt.Errorf("%s ended by %s: %d bestmove lines for this go: %v", where, r.End, len(bms)-before, bms[before:])
		}
		if err := judgeBestmove(bms[before], g); err != nil {
			return fmt.Errorf("%s ended by %s: %v", where, r.End, err)
		}
		// classification
		lab := "go:" + goKind(r.Go) + "+" + r.End
		labels = append(labels, lab, "engine:"+c.Engine)
		if len(g.Cur().Pos.Legal()) == 0 {
			labels = append(labels, "no-legal-move")
		}
		if g.DrawEver() {
			labels = append(labels, "claimable-draw")
		}
		if allMovesLose(&g.Cur().Pos) {
			labels = append(labels, "every-legal-move-walks-into-loss", "every-legal-move-walks-into-loss:"+c.Engine)
		}
		if r.Pos != nil && len(r.Pos.text()) > 4096 {
			labels = append(labels, "position-line-longer-than-4096-bytes")
		}
		if goKind(r.Go) == "wtime" && (strings.Contains(r.Go, "wtime 0") || strings.Contains(r.Go, "-50") || !strings.Contains(r.Go, "btime") || !strings.Contains(r.Go, "wtime")) {
			labels = append(labels, "clock-without-budget")
		}
		if lastHadGo && r.Pos == nil {
			labels = append(labels, "second-search-same-position")
		}
		lastHadGo = true
	}
	if !s.quit() {
		return fmt.Errorf("driver did not shut down on quit within %v", uciGrace)
	}
	if bms := bestmoves(s.snapshotLines()); len(bms) != gos {
		return fmt.Errorf("%d bestmove lines in total for %d go commands: %v", len(bms), gos, bms)
	}
	nt := false
	for _, r := range c.Rounds {
		if r.Pos != nil {
			if gg, err := r.Pos.game(); err == nil && len(gg.Cur().Pos.Legal()) > 1 {
				nt = true
			}
		} else {
			nt = true
		}
	}
	labels = append(labels, fmt.Sprintf("hash:%d", c.Hash), fmt.Sprintf("noise:%d", c.Noise))
	stats.Case(key, stats.FP(c.Engine, c.Hash, c.Noise, fmt.Sprint(c.Rounds)), nt, dedup(labels)...)
	stats.Note(key, "go_commands", int64(gos))
	return nil
}

func goKind(line string) string {
	f := strings.Fields(line)
	var ks []string
	for _, tok := range f[1:] {
		switch tok {
		case "depth", "movetime", "wtime", "movestogo", "infinite":
			ks = append(ks, tok)
		}
	}
	if len(ks) == 0 {
		return "bare"
	}
	return strings.Join(ks, "-")
}

func genGoLine(t *rapid.T, engine string) (string, bool) {
	maxDepth := 3
	if engine != "morlock" {
		maxDepth = 2
	}
	switch rapid.IntRange(0, 7).Draw(t, "gokind") {
	case 0, 1:
		return fmt.Sprintf("go depth %d", rapid.IntRange(1, maxDepth).Draw(t, "depth")), true
	case 2:
		return fmt.Sprintf("go movetime %d", rapid.SampledFrom([]int{1, 10, 30, 60}).Draw(t, "movetime")), true
	case 3:
		w := rapid.SampledFrom([]int{100, 400, 2000}).Draw(t, "wtime")
		line := fmt.Sprintf("go wtime %d btime %d", w, w+rapid.IntRange(0, 300).Draw(t, "bdiff"))
		if rapid.Bool().Draw(t, "mtg") {
			line += fmt.Sprintf(" movestogo %d", rapid.IntRange(1, 30).Draw(t, "movestogo"))
		}
		return line, true
	case 4:
		if rapid.IntRange(0, 2).Draw(t, "oddclock") == 0 {
			// clocks that leave the side to move no budget: flag fallen, only one clock given
			return rapid.SampledFrom([]string{"go wtime 0 btime 0", "go wtime 60000", "go btime 60000", "go wtime -50 btime -50", "go wtime 1 btime 1", "go wtime 0 btime 0 movestogo 1",
				"go wtime 1000 btime 1000 movestogo 9223372036854775807", "go wtime 1000 btime 1000 movestogo 4611686018427387903", "go wtime 300 btime 300 movestogo -7",
				"go depth 1 movetime 0"}).Draw(t, "clock"), true
		}
		return "go infinite", false
	case 5: // a timer that outlives its search
		return fmt.Sprintf("go depth 1 movetime %d", rapid.SampledFrom([]int{20, 40}).Draw(t, "movetime")), true
	case 6:
		return fmt.Sprintf("go depth %d wtime 60000 btime 60000", rapid.IntRange(1, maxDepth).Draw(t, "depth")), true
	default:
		// a move time that is not positive is no move time: like a bare go
		return rapid.SampledFrom([]string{"go", "go", "go movetime 0", "go movetime -5"}).Draw(t, "bare"), bundleDefaultDepth(engine) > 0
	}
}

func genGoCase(t *rapid.T) goCase {
	c := goCase{Engine: bundles[rapid.IntRange(0, len(bundles)-1).Draw(t, "engine")].Name,
		Hash:  uint(rapid.SampledFrom([]int{0, 1, 1, 16}).Draw(t, "hash")),
		Noise: uint(rapid.SampledFrom([]int{0, 0, 10, 500}).Draw(t, "noise"))}
	n := rapid.IntRange(1, 4).Draw(t, "rounds")
	var cur *posCmd
	for i := 0; i < n; i++ {
		var r goRound
		if cur == nil || rapid.IntRange(0, 3).Draw(t, "newpos") > 0 {
			p := posCmd{}
			var g *oracle.Game
			switch rapid.IntRange(0, 5).Draw(t, "poskind") {
			case 0: // book territory / opening
				gc, _ := gen.Play(t, oracle.MustFEN(oracle.InitialFEN), 2, gen.DrawPolicy(t))
				p.Moves = gc.Moves
			case 1: // histories with claimable draws
				gc, gg := gen.History(t, 60)
				g = gg
				p.FEN, p.Moves = gc.FEN, gc.Moves
				if gc.FEN == oracle.InitialFEN {
					p.FEN = ""
				}
			case 5: // a very long game on one line (GUIs resend the whole game every move)
				if rapid.IntRange(0, 3).Draw(t, "long") == 0 {
					lg := oracle.NewGame(oracle.MustFEN(oracle.InitialFEN))
					var gc gen.GameCase
					for k, n := 0, 820+rapid.IntRange(0, 400).Draw(t, "longplies"); k < n; k++ {
						m, ok := gen.PickMove(t, lg, gen.Policy{0, 1, 0, 0, 1, 1, 0, 2, 1, 12})
						if !ok {
							break
						}
						lg.Push(m)
						gc.Moves = append(gc.Moves, m.String())
					}
					p.Moves = gc.Moves
				} else {
					gc, _ := gen.Game(t, 30)
					p.FEN, p.Moves = gc.FEN, gc.Moves
					if gc.FEN == oracle.InitialFEN {
						p.FEN = ""
					}
				}
			case 4: // the mover can only walk into loss (no safe move, no capture): selective engines must still move
				if st, ok := onlyLosingMoves(t); ok {
					p.FEN = st.FEN()
					break
				}
				gc, _ := gen.Game(t, 30)
				p.FEN, p.Moves = gc.FEN, gc.Moves
				if gc.FEN == oracle.InitialFEN {
					p.FEN = ""
				}
			case 2: // endings: mates and stalemates are near
				gc, _ := gen.Play(t, matingEnding(t), 12, gen.Policy{1, 0, 0, 1, 3, 0, 0, 1, 1, 3})
				p.FEN, p.Moves = gc.FEN, gc.Moves
			default:
				gc, _ := gen.Game(t, 30)
				p.FEN, p.Moves = gc.FEN, gc.Moves
				if gc.FEN == oracle.InitialFEN {
					p.FEN = ""
				}
			}
			_ = g
			cur = &p
			r.Pos = &p
			r.NewGame = rapid.IntRange(0, 3).Draw(t, "newgame") == 0
		}
		if rapid.IntRange(0, 5).Draw(t, "ownbook") == 0 {
			r.Options = append(r.Options, "setoption name OwnBook value "+rapid.SampledFrom([]string{"true", "false"}).Draw(t, "book"))
		}
		// options changed in the middle of a game (the next go may come without a new position)
		if rapid.IntRange(0, 4).Draw(t, "midgameoption") == 0 {
			r.Options = append(r.Options, rapid.SampledFrom([]string{"setoption name Hash value 0", "setoption name Hash value 1", "setoption name Hash value 2", "setoption name Hash value 16",
				"setoption name Noise value 0", "setoption name Noise value 25"}).Draw(t, "option"))
		}
		line, self := genGoLine(t, c.Engine)
		r.Go = line
		if self && rapid.IntRange(0, 3).Draw(t, "stopanyway") > 0 {
			r.End = "self"
		} else {
			r.End = "stop"
			r.DelayUS = rapid.SampledFrom([]int{0, 100, 2000, 20000, 70000}).Draw(t, "delay")
		}
		r.SettleUS = rapid.SampledFrom([]int{0, 0, 1000, 50000}).Draw(t, "settle")
		c.Rounds = append(c.Rounds, r)
	}
	return c
}

func TestC04_bestmove(t *testing.T) {
	runRapid(t, "C04/bestmove", 2400, genGoCase, func(c goCase) error {
		stats.Sample("C04/bestmove", c)
		return checkC04(c)
	})
}

// ---------------------------------------------------------------------------------------
// Black box: the real cmd/* binaries built from the working tree, driven over pipes.

type procSession struct {
	cmd    *exec.Cmd
	stdin  io.WriteCloser
	stderr *bytes.Buffer

	mu     sync.Mutex
	cond   *sync.Cond
	lines  []string
	closed bool
	sent   int
}

func startEngineProcess(name string, args ...string) (*procSession, error) {
	dir := os.Getenv("VERIF_BIN")
	if dir == "" {
		dir = filepath.Join(verifRoot(), ".build", "bin")
	}
	p := &procSession{stderr: &bytes.Buffer{}}
	p.cond = sync.NewCond(&p.mu)
	p.cmd = exec.Command(filepath.Join(dir, name), append([]string{"-logtostderr=true"}, args...)...)
	p.cmd.Stderr = p.stderr
	var err error
	if p.stdin, err = p.cmd.StdinPipe(); err != nil {
		return nil, err
	}
	out, err := p.cmd.StdoutPipe()
	if err != nil {
		return nil, err
	}
	if err := p.cmd.Start(); err != nil {
		return nil, err
	}
	go func() {
		sc := bufio.NewScanner(out)
		for sc.Scan() {
			p.mu.Lock()
			p.lines = append(p.lines, sc.Text())
			p.cond.Broadcast()
			p.mu.Unlock()
		}
		p.mu.Lock()
		p.closed = true
		p.cond.Broadcast()
		p.mu.Unlock()
	}()
	p.send("uci")
	if !p.waitFor(func(lines []string, closed bool) bool { return count(lines, "uciok") > 0 || closed }, uciGrace) || count(p.snapshotLines(), "uciok") == 0 {
		p.kill()
		return nil, fmt.Errorf("%s did not answer uci with uciok", name)
	}
	return p, nil
}

func (p *procSession) send(line string) bool {
	_, err := io.WriteString(p.stdin, line+"\n")
	return err == nil
}

func (p *procSession) waitFor(pred func(lines []string, closed bool) bool, grace time.Duration) bool {
	deadline := time.Now().Add(grace)
	timer := time.AfterFunc(grace, func() {
		p.mu.Lock()
		p.cond.Broadcast()
		p.mu.Unlock()
	})
	defer timer.Stop()
	p.mu.Lock()
	defer p.mu.Unlock()
	for !pred(p.lines, p.closed) {
		if time.Now().After(deadline) {
			return false
		}
		p.cond.Wait()
	}
	return true
}

func (p *procSession) barrier() string {
	if !p.send("isready") {
		return "engine process no longer accepts input"
	}
	p.mu.Lock()
	p.sent++
	want := p.sent
	p.mu.Unlock()
	p.waitFor(func(lines []string, closed bool) bool { return count(lines, "readyok") >= want || closed }, uciGrace)
	p.mu.Lock()
	defer p.mu.Unlock()
	if count(p.lines, "readyok") >= want {
		return ""
	}
	if p.closed {
		return "engine process ended: " + lastNonLogLines(p.stderr.String())
	}
	return fmt.Sprintf("no readyok within %v (deadlock)", uciGrace)
}

func (p *procSession) snapshotLines() []string {
	p.mu.Lock()
	defer p.mu.Unlock()
	return append([]string(nil), p.lines...)
}

func (p *procSession) quit() bool {
	p.send("quit")
	ok := p.waitFor(func(_ []string, closed bool) bool { return closed }, uciGrace)
	done := make(chan error, 1)
	go func() { done <- p.cmd.Wait() }()
	select {
	case <-done:
	case <-time.After(uciGrace):
		p.kill()
		return false
	}
	return ok
}

func (p *procSession) kill() {
	if p.cmd.Process != nil {
		_ = p.cmd.Process.Kill()
	}
}

func lastNonLogLines(s string) string {
	var keep []string
	for _, l := range strings.Split(s, "\n") {
		if len(l) > 5 && (l[0] == 'I' || l[0] == 'W' || l[0] == 'E') && l[1] >= '0' && l[1] <= '9' {
			continue
		}
		if strings.TrimSpace(l) != "" {
			keep = append(keep, l)
		}
	}
	if len(keep) > 12 {
		keep = keep[:12]
	}
	return strings.Join(keep, " | ")
}

var checkC04BlackBox = def("C04/blackbox", func(c goCase) error {
	var args []string
	if c.Engine == "bernstein" {
		args = append(args, "-ply=2")
	}
	if c.Engine != "morlock" {
		args = append(args, fmt.Sprintf("-noise=%d", c.Noise))
	}
	p, err := startEngineProcess(c.Engine, args...)
	if err != nil {
		return err
	}
	defer p.kill()
	if c.Engine == "morlock" {
		p.send(fmt.Sprintf("setoption name Hash value %d", c.Hash))
		p.send(fmt.Sprintf("setoption name Noise value %d", c.Noise))
	}
	if err := runGoRounds("C04/blackbox", c, p); err != nil {
		return err
	}
	if txt := p.stderr.String(); strings.Contains(txt, "panic:") || strings.Contains(txt, "fatal error:") {
		return fmt.Errorf("engine process crashed: %s", lastNonLogLines(txt))
	}
	return nil
})

func TestC04_blackbox(t *testing.T) {
	if _, err := os.Stat(filepath.Join(os.Getenv("VERIF_BIN"), "morlock")); err != nil && os.Getenv("VERIF_BIN") != "" {
		t.Skip("engine binaries not built")
	}
	runRapid(t, "C04/blackbox", 160, genGoCase, func(c goCase) error {
		stats.Sample("C04/blackbox", c)
		return checkC04BlackBox(c)
	})
}

// onlyLosingMoves constructs a position in which the side to move is not in check, its king
// has no move, and every legal move puts the moved man on an attacked, undefended square
// without capturing anything: a cornered king behind a blocked rook pawn, the two flight
// squares covered by a pawn and a bishop, and one or two free pawns whose only advance is
// guarded by an enemy pawn. Drawn over file/rank/guard side/bishop square/left-right/colour.
func onlyLosingMoves(t *rapid.T) (oracle.State, bool) {
	var p oracle.Pos
	p.EP = -1
	p.White = true
	set := func(f, r int, pc int8) bool {
		if f < 0 || f > 7 || r < 0 || r > 7 || p.Sq[oracle.Sq(f, r)] != 0 {
			return false
		}
		p.Sq[oracle.Sq(f, r)] = pc
		return true
	}
	// white king a1, white pawn a2, black pawn a3 (covers b2), black bishop on the b1-h7 diagonal (covers b1)
	set(0, 0, oracle.King)
	set(0, 1, oracle.Pawn)
	set(0, 2, -oracle.Pawn)
	bd := rapid.IntRange(2, 5).Draw(t, "bishop") // d3, e4, f5, g6
	set(1+bd, bd, -oracle.Bishop)
	set(7, rapid.SampledFrom([]int{7, 6}).Draw(t, "bk"), -oracle.King)
	ok := true
	for i, n := 0, rapid.IntRange(1, 2).Draw(t, "free"); i < n; i++ {
		f := rapid.IntRange(1, 7).Draw(t, "file")
		r := rapid.IntRange(1, 4).Draw(t, "rank")
		gf := f + rapid.SampledFrom([]int{-1, 1}).Draw(t, "guard")
		if !set(f, r, oracle.Pawn) || !set(gf, r+2, -oracle.Pawn) {
			ok = ok && i > 0
			break
		}
	}
	if !ok {
		return oracle.State{}, false
	}
	if rapid.Bool().Draw(t, "flip") { // left-right
		var q oracle.Pos
		q = p
		for s := 0; s < 64; s++ {
			q.Sq[oracle.Sq(7-oracle.File(s), oracle.Rank(s))] = p.Sq[s]
		}
		p = q
	}
	if rapid.Bool().Draw(t, "black") {
		p = p.Mirror()
	}
	// validate the construction with the rules
	if p.KingSq(true) < 0 || p.KingSq(false) < 0 || p.InCheck(p.White) || p.InCheck(!p.White) {
		return oracle.State{}, false
	}
	legal := p.Legal()
	if len(legal) == 0 {
		return oracle.State{}, false
	}
	for _, m := range legal {
		if m.Captured != 0 || m.Piece == oracle.King || m.Kind == oracle.Promo {
			return oracle.State{}, false
		}
		n := p.Make(m)
		if len(n.AttackersOf(int(m.To), n.White)) == 0 || len(n.AttackersOf(int(m.To), !n.White)) > 0 {
			return oracle.State{}, false
		}
	}
	return oracle.State{Pos: p, Half: rapid.SampledFrom([]int{0, 3}).Draw(t, "half"), Full: 40}, true
}

// allMovesLose: not in check, at least one legal move, and every legal move is a non-capturing
// non-king move onto an attacked, undefended square.
func allMovesLose(p *oracle.Pos) bool {
	legal := p.Legal()
	if len(legal) == 0 || p.InCheck(p.White) {
		return false
	}
	for _, m := range legal {
		if m.Captured != 0 || m.Piece == oracle.King || m.Kind == oracle.Promo {
			return false
		}
		n := p.Make(m)
		if len(n.AttackersOf(int(m.To), n.White)) == 0 || len(n.AttackersOf(int(m.To), !n.White)) > 0 {
			return false
		}
	}
	return true
}
