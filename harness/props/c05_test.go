package props

import (
	"fmt"
	"testing"

	"github.com/herohde/morlock/pkg/board"
	"pgregory.net/rapid"
	"verifharness/bridge"
	"verifharness/gen"
	"verifharness/oracle"
	"verifharness/stats"
)

// resultCase: a game, optionally forked at ForkAt with a second continuation.
type resultCase struct {
	FEN       string   `json:"fen"`
	Moves     []string `json:"moves"`
	ForkAt    int      `json:"fork_at"` // -1: no fork
	ForkMoves []string `json:"fork_moves,omitempty"`
	// Query > 0: a spectator asks read-only questions (check, mate, legal moves, ...) about the
	// current position after every ply i with i % Query == 0. Questions do not change a game.
	Query int `json:"query,omitempty"`
}

// spectate asks every read-only question the position and board offer.
func spectate(b *board.Board) {
	p, turn := b.Position(), b.Turn()
	_ = p.IsChecked(turn)
	_ = p.IsChecked(turn.Opponent())
	_ = p.IsCheckMate(turn)
	_ = p.LegalMoves(turn)
	_ = p.PseudoLegalMoves(turn.Opponent())
	_, _ = p.EnPassant()
	_ = p.Castling()
	_ = p.String()
	_ = b.Hash()
	_ = b.Ply()
	_ = b.FullMoves()
	_ = b.HasCastled(turn)
	_ = b.HasMoved(4)
	_, _ = b.SecondToLastMove()
	_ = p.HasInsufficientMaterial()
	_ = p.IsAttacked(turn, p.KingSquare(turn))
	_, _ = b.LastMove()
	_ = b.String()
}

// judgeResult compares what the board reports after a push with the oracle game.
func judgeResult(b *board.Board, g *oracle.Game, where string) error {
	res := b.Result()
	drawn := res.Outcome == board.Draw
	if g.DrawNow() && !drawn {
		return fmt.Errorf("%s: rules %v hold at %s (occurrence %d, clock %d) but Result()=%v", where, g.Fired[len(g.Fired)-1], g.Cur().Pos.KeyFEN(), g.RepCount(), g.Cur().Half, res)
	}
	if drawn && !g.DrawEver() {
		return fmt.Errorf("%s: Result()=%v although no draw rule has fired in this game (occurrence %d, clock %d) at %s", where, res, g.RepCount(), g.Cur().Half, g.Cur().Pos.KeyFEN())
	}
	if g.FiredNow(oracle.RuleRep5) && !g.FiredNow(oracle.RuleFifty) && !g.FiredNow(oracle.RuleInsufficient) && res.Reason != board.Repetition5 {
		return fmt.Errorf("%s: fifth occurrence of %s but reason is %q", where, g.Cur().Pos.KeyFEN(), res.Reason)
	}
	if b.NoProgress() != g.Cur().Half {
		return fmt.Errorf("%s: NoProgress()=%d, half-moves since last pawn move or capture=%d (last move %v)", where, b.NoProgress(), g.Cur().Half, lastMove(g))
	}
	if !g.Cur().Pos.HasLegal() {
		f := b.Fork()
		got := f.AdjudicateNoLegalMoves()
		want := board.Result{Outcome: board.Draw, Reason: board.Stalemate}
		if g.Cur().Pos.InCheck(g.Cur().Pos.White) {
			want = board.Result{Outcome: board.Loss(b.Turn()), Reason: board.Checkmate}
		}
		if got != want || f.Result() != want {
			return fmt.Errorf("%s: AdjudicateNoLegalMoves()=%v (Result()=%v), want %v at %s", where, got, f.Result(), want, g.Cur().Pos.KeyFEN())
		}
	}
	return nil
}

func lastMove(g *oracle.Game) string {
	if len(g.Moves) == 0 {
		return "-"
	}
	m := g.Moves[len(g.Moves)-1]
	return fmt.Sprintf("%v(%v)", m, m.Kind)
}

// resultLabels classifies a finished line.
func resultLabels(g *oracle.Game, startHalf int) []string {
	var labels []string
	for i, fired := range g.Fired {
		for _, f := range fired {
			labels = append(labels, f)
			if f == oracle.RuleRep3 {
				// is one of the earlier occurrences the start position or the position right after an irreversible move?
				cur := g.States[i].Pos
				for j := 0; j < i; j++ {
					if g.States[j].Pos == cur && (j == 0 || g.States[j].Half == 0) {
						labels = append(labels, "rep-first-occurrence-at-clock-start")
					}
				}
			}
			if f == oracle.RuleInsufficient {
				nb := 0
				for s := 0; s < 64; s++ {
					if pc := g.States[i].Pos.Sq[s]; pc == oracle.Bishop || pc == -oracle.Bishop {
						nb++
					}
				}
				if nb == 2 {
					labels = append(labels, "insufficient-two-bishops")
				}
			}
			if f == oracle.RuleFifty && startHalf > 0 {
				labels = append(labels, "fifty-clock-from-fen")
			}
		}
	}
	// near misses
	cur := g.Cur()
	if !g.DrawEver() {
		if g.RepCount() == 2 {
			labels = append(labels, "near-rep")
		}
		if cur.Half >= 95 {
			labels = append(labels, "near-fifty")
		}
	}
	// two bishops of opposite colours left (must NOT be called insufficient)
	n, bs := 0, []int{}
	for s := 0; s < 64; s++ {
		if pc := cur.Pos.Sq[s]; pc != 0 {
			n++
			if pc == oracle.Bishop || pc == -oracle.Bishop {
				bs = append(bs, s)
			}
		}
	}
	if n == 4 && len(bs) == 2 && !cur.Pos.Insufficient() {
		labels = append(labels, "opposite-bishops-left")
	}
	for _, m := range g.Moves {
		if m.Kind == oracle.CastleK || m.Kind == oracle.CastleQ {
			labels = append(labels, "castle-in-game")
			break
		}
	}
	if !cur.Pos.HasLegal() {
		if cur.Pos.InCheck(cur.Pos.White) {
			labels = append(labels, "mate")
		} else {
			labels = append(labels, "stalemate")
		}
	}
	return dedup(labels)
}

var checkC05 = def("C05/history", func(c resultCase) error {
	st, err := oracle.ParseFEN(c.FEN)
	if err != nil {
		return fmt.Errorf("case: %v", err)
	}
	g := oracle.NewGame(st)
	b := bridge.Board(zt0, st)
	if b.Result().Outcome == board.Draw {
		return fmt.Errorf("fresh board reports %v", b.Result())
	}
	var fb *board.Board
	var fg *oracle.Game
	pops, forkPly, queried := 0, 0, 0
	for i := 0; i <= len(c.Moves); i++ {
		if i == c.ForkAt {
			fb, fg = b.Fork(), g.Clone()
			forkPly = len(g.Moves)
		}
		if i == len(c.Moves) {
			break
		}
		if c.Moves[i] == "pop" { // a take-back inside the game: play goes on from the earlier position
			if _, ok := b.PopMove(); !ok || !g.Pop() {
				return fmt.Errorf("case: pop %d with nothing to take back", i)
			}
			pops++
			if fb != nil && len(g.Moves) < forkPly {
				return fmt.Errorf("case: pop %d goes below the fork point", i)
			}
			if err := judgeResultQuiet(b, g); err != nil {
				return fmt.Errorf("after take-back %d: %v", i, err)
			}
			continue
		}
		om, ok := g.Cur().Pos.FindMove(c.Moves[i])
		if !ok {
			return fmt.Errorf("case: move %d (%s) not legal", i, c.Moves[i])
		}
		if _, err := pushOracleMove(b, om); err != nil {
			return fmt.Errorf("ply %d: %v", i, err)
		}
		g.Push(om)
		if err := judgeResult(b, g, fmt.Sprintf("after ply %d (%s)", i, c.Moves[i])); err != nil {
			return err
		}
		if c.Query > 0 && i%c.Query == 0 {
			spectate(b)
			queried++
			if err := judgeResult(b, g, fmt.Sprintf("after ply %d (%s) and read-only queries", i, c.Moves[i])); err != nil {
				return err
			}
		}
	}
	labels := resultLabels(g, st.Half)
	if fb != nil {
		for i, mv := range c.ForkMoves {
			om, ok := fg.Cur().Pos.FindMove(mv)
			if !ok {
				return fmt.Errorf("case: fork move %d (%s) not legal", i, mv)
			}
			if _, err := pushOracleMove(fb, om); err != nil {
				return fmt.Errorf("fork ply %d: %v", i, err)
			}
			fg.Push(om)
			if err := judgeResult(fb, fg, fmt.Sprintf("on the fork after ply %d (%s)", i, mv)); err != nil {
				return err
			}
		}
		for _, l := range resultLabels(fg, st.Half) {
			labels = append(labels, "fork:"+l)
		}
		// the original is not disturbed by the fork's moves
		if err := judgeResultQuiet(b, g); err != nil {
			return fmt.Errorf("original after moves on the fork: %v", err)
		}
	}
	if pops > 0 {
		labels = append(labels, "take-backs-in-game")
	}
	if queried > 0 {
		labels = append(labels, "spectator-queries")
		for i, fired := range g.Fired {
			for _, f := range fired {
				if (f == oracle.RuleRep3 || f == oracle.RuleRep5) && g.States[i].Pos.InCheck(g.States[i].Pos.White) {
					labels = append(labels, "spectated-repetition-in-check")
				}
			}
		}
	}
	nt := false
	for _, l := range labels {
		if l != "castle-in-game" && l != "fork:castle-in-game" && l != "take-backs-in-game" && l != "spectator-queries" {
			nt = true
		}
	}
	stats.Case("C05/history", stats.FP(c.FEN, fmt.Sprint(c.Moves), c.ForkAt, fmt.Sprint(c.ForkMoves), c.Query), nt, dedup(labels)...)
	stats.Note("C05/history", "pushes_judged", int64(len(c.Moves)+len(c.ForkMoves)))
	return nil
})

// judgeResultQuiet re-checks the parts of the judgement that do not depend on "just pushed".
func judgeResultQuiet(b *board.Board, g *oracle.Game) error {
	if b.NoProgress() != g.Cur().Half {
		return fmt.Errorf("NoProgress()=%d want %d", b.NoProgress(), g.Cur().Half)
	}
	if got := bridge.OPos(b.Position(), b.Turn()); got != g.Cur().Pos {
		return fmt.Errorf("position %s want %s", got.KeyFEN(), g.Cur().Pos.KeyFEN())
	}
	if b.Result().Outcome == board.Draw && !g.DrawEver() {
		return fmt.Errorf("Result()=%v although no rule fired", b.Result())
	}
	return nil
}

func genResultCase(t *rapid.T) resultCase {
	gc, g := gen.History(t, 140)
	c := resultCase{FEN: gc.FEN, Moves: gc.Moves, ForkAt: -1}
	if rapid.IntRange(0, 3).Draw(t, "fork") == 0 && len(gc.Moves) > 0 {
		c.ForkAt = rapid.IntRange(0, len(gc.Moves)).Draw(t, "forkat")
		pre, err := gen.GameCase{FEN: gc.FEN, Moves: gc.Moves[:c.ForkAt]}.Build()
		if err == nil {
			n := rapid.IntRange(0, 40).Draw(t, "forkplies")
			pol := gen.Policy{0, 0, 0, 0, 1, 1, 0, 12, 0, 6}
			for i := 0; i < n; i++ {
				m, ok := gen.PickMove(t, pre, pol)
				if !ok {
					break
				}
				pre.Push(m)
				c.ForkMoves = append(c.ForkMoves, m.String())
			}
		}
	}
	_ = g
	if c.ForkAt < 0 && rapid.IntRange(0, 3).Draw(t, "withpops") == 0 && len(c.Moves) > 2 {
		// replay the game inserting take-backs: after a take-back the game continues with freshly drawn moves
		st, _ := oracle.ParseFEN(c.FEN)
		pg := oracle.NewGame(st)
		var ops []string
		pol := gen.Policy{1, 1, 1, 1, 1, 1, 1, 10, 2, 6}
		for i := 0; i < len(c.Moves) && len(ops) < 160; i++ {
			if len(pg.Moves) > 0 && rapid.IntRange(0, 7).Draw(t, "pop") == 0 {
				for k, n := 0, rapid.IntRange(1, 3).Draw(t, "npops"); k < n && len(pg.Moves) > 0; k++ {
					pg.Pop()
					ops = append(ops, "pop")
				}
			}
			m, ok := gen.PickMove(t, pg, pol)
			if !ok {
				break
			}
			pg.Push(m)
			ops = append(ops, m.String())
		}
		c.Moves = ops
	}
	if rapid.IntRange(0, 2).Draw(t, "spectator") == 0 {
		c.Query = rapid.IntRange(1, 4).Draw(t, "queryevery")
	}
	return c
}

func TestC05_history(t *testing.T) {
	runRapid(t, "C05/history", 100000, genResultCase, func(c resultCase) error {
		stats.Sample("C05/history", c)
		return checkC05(c)
	})
}
