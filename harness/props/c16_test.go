package props

import (
	"runtime"
	"encoding/json"
	"fmt"
	"os"
	"strings"
	"testing"
	"time"

	"github.com/herohde/morlock/pkg/search"
	"pgregory.net/rapid"
	"verifharness/gen"
	"verifharness/oracle"
	"verifharness/stats"
)

// ilAction is one step of an interleaving script: a line sent to the driver or a move of
// the harness (which owns the progress of the gated searches).
type ilAction struct {
	Kind string  `json:"kind"` // cmd | position | badposition | barrier | release | releaseall | sleep | eof
	Line string  `json:"line,omitempty"`
	Note string  `json:"note,omitempty"` // badposition: what is wrong with the line
	Pos  *posCmd `json:"position,omitempty"`
	N    int     `json:"n,omitempty"` // release: which held search (mod count); sleep: microseconds
}

type ilCase struct {
	Engine  string     `json:"engine"`
	Hash    uint       `json:"hash_mb"`
	Noise   uint       `json:"noise"`
	Gated   bool       `json:"gated"`
	// HoldFirst: the gate also holds the FIRST iteration of every analysis. Commands that halt
	// the engine then reach Halt while depth 1 is pending (Halt has to wait for it by design);
	// the harness releases depth 1 right after sending such a command.
	HoldFirst bool `json:"hold_first,omitempty"`
	// Stall (with HoldFirst): the first iteration of a "go movetime 300" stays held until the next
	// command, which halts it, has been sent AND the move time has run out: the timer fires while
	// the command loop is waiting for depth 1 on behalf of the superseding command.
	Stall bool `json:"stall,omitempty"`
	Actions []ilAction `json:"actions"`
}

// journal records the case about to run, so that a crash of the whole process (a panic in a
// goroutine of the driver) still leaves a replayable script behind.
var journalRing []any

func journal(key string, c any) {
	path := os.Getenv("VERIF_JOURNAL")
	if path == "" {
		return
	}
	var payload any = c
	if os.Getenv("VERIF_RACE") != "" {
		// a race report does not stop the process and may stem from an earlier case: keep the
		// most recent ones together as the history to replay
		journalRing = append(journalRing, c)
		if len(journalRing) > 12 {
			journalRing = journalRing[len(journalRing)-12:]
		}
		payload = map[string]any{"recent_cases_oldest_first": journalRing}
	}
	data, _ := json.Marshal(map[string]any{"check": key, "case": payload})
	_ = os.WriteFile(path, data, 0o644)
}

func clearJournal() {
	if os.Getenv("VERIF_RACE") != "" {
		return
	}
	if path := os.Getenv("VERIF_JOURNAL"); path != "" {
		_ = os.Remove(path)
	}
}

// shutdownLine: lines the driver answers by a deliberate shutdown (it logs and returns).
func shutdownLine(line string, g *oracle.Game) bool {
	f := strings.Fields(line)
	if len(f) == 0 {
		return false
	}
	switch strings.ToLower(f[0]) {
	case "quit":
		return true
	case "go":
		for i := 1; i < len(f); i++ {
			switch f[i] {
			case "wtime", "btime", "movestogo", "depth", "movetime":
				if i+1 >= len(f) {
					return true
				}
				if !isInt(f[i+1]) {
					return true
				}
				i++
			}
		}
	}
	return false
}

func isInt(s string) bool {
	if s == "" {
		return false
	}
	for i, r := range s {
		if (r == '-' || r == '+') && i == 0 && len(s) > 1 {
			continue
		}
		if r < '0' || r > '9' {
			return false
		}
	}
	return true
}

type goRecord struct {
	game       *oracle.Game // position current at the go
	launchLo   int          // analyses launched before this go was sent
	launchHi   int          // ... before the next go was sent (-1: this is the latest go)
	bmBefore   int          // bestmove lines at the flush barrier before the go was sent
	bmMid      int          // bestmove lines at the barrier after the go was processed
	held       bool         // its search is held at the gate
	mayEnd     bool         // a stop/timer/release may have ended it
	superseded bool
	stopped    bool // a stop was sent for it (its answer may legitimately arrive late)
	closedAt   int // >= 0: bestmove lines at the barrier after the position/ucinewgame that abandoned this search
}

var checkC16 = def("C16/interleave", func(c ilCase) error {
	journal("C16/interleave", c)
	defer clearJournal()
	bd, err := findBundle(c.Engine)
	if err != nil {
		return err
	}
	var gs *gatedSearch
	wrap := func(s search.Search) search.Search {
		hold := 0
		if c.Gated {
			hold = 2
			if c.HoldFirst {
				hold = 1
			}
		}
		gs = newGatedSearch(s, hold)
		return gs
	}
	e, opts := bd.make(c.Hash, c.Noise, 0, wrap)
	s := newUCISession(e, opts...)
	g := oracle.NewGame(oracle.MustFEN(oracle.InitialFEN))

	var gos []*goRecord
	var heldEvents []gateEvent
	alive := true // the driver is expected to be running
	var labels []string

	// goOf attributes a gate event to the go whose analysis it belongs to: analyses make
	// their depth-1 call in launch order, and the harness waits for that call (or for the
	// immediate answer of a book hit) before it sends anything after a go.
	goOf := func(ev gateEvent) int {
		j := gs.launchIndex(ev.ctx)
		if j < 0 {
			return -1
		}
		for k := len(gos) - 1; k >= 0; k-- {
			if gos[k].launchLo <= j {
				if j < gos[k].launchHi || gos[k].launchHi < 0 {
					return k
				}
				return -1
			}
		}
		return -1
	}
	note := func(ev gateEvent) {
		heldEvents = append(heldEvents, ev)
		if k := goOf(ev); k >= 0 && k == len(gos)-1 && !gos[k].superseded {
			gos[k].held = true
		}
	}
	collect := func(wait time.Duration) {
		deadline := time.After(wait)
		for {
			select {
			case ev := <-gs.entering:
				note(ev)
				continue
			default:
			}
			if wait <= 0 {
				return
			}
			select {
			case ev := <-gs.entering:
				note(ev)
				wait = 0 // got one: take what else is there and return
			case <-deadline:
				return
			}
		}
	}
	release := func(i int) {
		ev := heldEvents[i]
		heldEvents = append(heldEvents[:i], heldEvents[i+1:]...)
		if k := goOf(ev); k >= 0 {
			gos[k].held = false
			gos[k].mayEnd = true
		}
		close(ev.release)
	}
	// releaseFirstIterations lets every analysis that is held before its depth-1 search run it:
	// called right after a command that halts the engine was sent (the command loop is then
	// inside Halt, waiting for exactly that).
	var stalledAt *time.Time
	releaseLimit := -1
	releaseFirstIterations := func() {
		if !c.HoldFirst {
			return
		}
		if stalledAt != nil {
			if el := time.Since(*stalledAt); el < 200*time.Millisecond {
				time.Sleep(320*time.Millisecond - el) // let the move timer of the held search fire first
				labels = append(labels, "move-timer-fired-while-the-loop-waited-for-depth-1")
			}
			stalledAt = nil
		}
		if releaseLimit >= 0 {
			// (stall scripts) only the first iterations that were pending BEFORE the command was sent: the
			// new search's own first iteration stays held
			n := releaseLimit
			releaseLimit = -1
			for i := 0; i < n && i < len(heldEvents); {
				if heldEvents[i].depth == 1 {
					release(i)
					n--
					continue
				}
				i++
			}
			return
		}
		time.Sleep(2 * time.Millisecond)
		collect(0)
		for i := 0; i < len(heldEvents); {
			if heldEvents[i].depth == 1 {
				release(i)
				continue
			}
			i++
		}
	}
	releaseAll := func() {
		for len(heldEvents) > 0 {
			release(0)
		}
	}
	// the history invariant, evaluated after every barrier. Lines emitted between the flush
	// barrier before a go and the barrier after it may belong to the previous search (its answer
	// was still on its way) or to the new one (book move, immediate end): they are assigned to
	// the previous go if that is still unanswered and the move is legal there, else to the new.
	// Lines after the barrier that follows a go and before the next flush belong to that go.
	invariant := func(step int, what string) error {
		bms := bestmoves(s.snapshotLines())
		assigned := make([][]string, len(gos))
		certain := make([]int, len(gos))
		for k, r := range gos {
			lo, mid := min(r.bmBefore, len(bms)), min(max(r.bmMid, r.bmBefore), len(bms))
			hi := len(bms)
			if k+1 < len(gos) {
				hi = min(gos[k+1].bmBefore, len(bms))
			}
			for _, bm := range bms[lo:mid] {
				if k > 0 && len(assigned[k-1]) == 0 && judgeBestmove(bm, gos[k-1].game) == nil {
					assigned[k-1] = append(assigned[k-1], bm)
				} else {
					assigned[k] = append(assigned[k], bm)
				}
			}
			if mid <= hi {
				assigned[k] = append(assigned[k], bms[mid:hi]...)
				certain[k] = hi - mid
			}
		}
		for k, r := range gos {
			if r.closedAt >= 0 && !r.stopped {
				hi := len(bms)
				if k+1 < len(gos) {
					hi = min(gos[k+1].bmBefore, len(bms))
				}
				if hi > r.closedAt && r.closedAt >= r.bmBefore {
					return fmt.Errorf("step %d (%s): %q was emitted after the search of go #%d (%s) had been abandoned by a new position / ucinewgame and before any new go: it belongs to a superseded search", step, what, bms[r.closedAt], k, r.game.Cur().FEN())
				}
			}
			if len(assigned[k]) > 1 {
				return fmt.Errorf("step %d (%s): %d bestmove lines for go #%d (%s): %v", step, what, len(assigned[k]), k, r.game.Cur().FEN(), assigned[k])
			}
			if k == len(gos)-1 && r.held && !r.mayEnd && certain[k] > 0 {
				return fmt.Errorf("step %d (%s): %q was emitted while the current search (go #%d at %s) is still held before its next iteration and no stop was sent: it belongs to a superseded search", step, what, assigned[k][len(assigned[k])-1], k, r.game.Cur().FEN())
			}
			for _, bm := range assigned[k] {
				if err := judgeBestmove(bm, r.game); err != nil {
					return fmt.Errorf("step %d (%s): answer to go #%d: %v", step, what, k, err)
				}
			}
		}
		return nil
	}
	barrier := func(step int, what string) error {
		if !alive {
			return nil
		}
		why := s.barrier()
		if why != "" && stalledAt != nil {
			// the harness itself was holding a first iteration the command loop may be waiting for
			stalledAt = nil
			releaseFirstIterations()
			why = s.barrier()
		}
		if why != "" {
			return fmt.Errorf("step %d (%s): isready not answered: %s", step, what, why)
		}
		collect(0)
		return invariant(step, what)
	}
	shutdown := func(step int, what string) error {
		alive = false
		if !s.waitFor(func(_ []string, closed bool) bool { return closed }, uciGrace) {
			return fmt.Errorf("step %d (%s): the driver did not shut down (output still open after %v)", step, what, uciGrace)
		}
		return nil
	}

	for i, a := range c.Actions {
		if !alive {
			break
		}
		abandons := a.Kind == "position" || (a.Kind == "cmd" && strings.EqualFold(strings.TrimSpace(a.Line), "ucinewgame"))
		switch a.Kind {
		case "position":
			ng, err := a.Pos.game()
			if err != nil {
				return err
			}
			if !s.send(a.Pos.text()) {
				return fmt.Errorf("step %d: driver stopped reading input", i)
			}
			releaseFirstIterations()
			g = ng
			if len(gos) > 0 {
				gos[len(gos)-1].superseded = true // position halts the active search
				gos[len(gos)-1].mayEnd = true
			}
			labels = append(labels, "position")
		case "badposition":
			// a malformed position line (its last move is not a legal move): the driver may go on or
			// shut down (the unchanged one logs and shuts down), but it must do one of the two
			if !s.send(a.Line) {
				return fmt.Errorf("step %d: driver stopped reading input before %q", i, a.Line)
			}
			releaseFirstIterations()
			labels = append(labels, "bad-position:"+a.Note)
			if len(heldEvents) > 0 {
				labels = append(labels, "shutdown-with-search-in-flight")
			}
			switch why := s.barrier(); why {
			case "":
				// still serving: the script ends here with quit (the game it holds is unspecified)
			case "driver shut down":
				if err := shutdown(i, a.Line); err != nil {
					return err
				}
			default:
				return fmt.Errorf("step %d: after the malformed line %q the driver neither goes on nor shuts down: %s", i, a.Line, why)
			}
			if len(gos) > 0 {
				gos[len(gos)-1].superseded = true
				gos[len(gos)-1].mayEnd = true
			}
		case "cmd":
			f := strings.Fields(a.Line)
			verb := ""
			if len(f) > 0 {
				verb = strings.ToLower(f[0])
			}
			if verb == "go" {
				// flush: everything emitted before the go is sent belongs to earlier searches
				if why := s.barrier(); why != "" {
					return fmt.Errorf("step %d (before %q): isready not answered: %s", i, a.Line, why)
				}
			}
			bm := len(bestmoves(s.snapshotLines()))
			launchesBefore := gs.launchCount()
			if c.Stall && verb == "go" {
				collect(0)
				releaseLimit = len(heldEvents)
			}
			if !s.send(a.Line) {
				return fmt.Errorf("step %d: driver stopped reading input before %q", i, a.Line)
			}
			switch verb {
			case "go", "stop", "ucinewgame", "quit":
				releaseFirstIterations()
			}
			if shutdownLine(a.Line, g) {
				releaseFirstIterations()
				labels = append(labels, "shutdown-line")
				if len(heldEvents) > 0 {
					labels = append(labels, "shutdown-with-search-in-flight")
				}
				if err := shutdown(i, a.Line); err != nil {
					return err
				}
				break
			}
			switch verb {
			case "go":
				if len(gos) > 0 {
					gos[len(gos)-1].superseded = true
					if gos[len(gos)-1].held {
						labels = append(labels, "go-while-search-held")
					}
				}
				if why := s.barrier(); why != "" {
					return fmt.Errorf("step %d (%q): isready not answered: %s", i, a.Line, why)
				}
				rec := &goRecord{closedAt: -1, game: g.Clone(), bmBefore: bm, bmMid: len(bestmoves(s.snapshotLines())), launchLo: launchesBefore, launchHi: -1}
				if len(gos) > 0 {
					gos[len(gos)-1].launchHi = launchesBefore
				}
				if strings.Contains(a.Line, "movetime") || strings.Contains(a.Line, "wtime") || strings.Contains(a.Line, "btime") || strings.Contains(a.Line, "movestogo") || !c.Gated {
					rec.mayEnd = true
				}
				gos = append(gos, rec)
				// the go has been processed: its analysis makes its first call any moment now,
				// unless the go was answered at once (book) - wait for either, so that later
				// gate events can be attributed reliably
				for w := 0; w < 400 && gs.launchCount() == launchesBefore && len(bestmoves(s.snapshotLines())) == bm; w++ {
					time.Sleep(5 * time.Millisecond)
				}
				// give the new search the chance to reach its gate
				if c.Gated && gs.launchCount() > launchesBefore {
					collect(150 * time.Millisecond)
				}
				// a timer of this go will call Halt from the command loop, which by design waits for
				// depth 1: the harness must not keep depth 1 pending past that (it would block the
				// loop itself, not the driver's fault)
				if c.HoldFirst && rec.mayEnd {
					stall := false
					if c.Stall && strings.TrimSpace(a.Line) == "go movetime 300" && i+1 < len(c.Actions) {
						n := c.Actions[i+1]
						nv := strings.ToLower(strings.TrimSpace(n.Line))
						stall = n.Kind == "position" || (n.Kind == "cmd" && (strings.HasPrefix(nv, "go") || nv == "stop" || nv == "ucinewgame") && !shutdownLine(n.Line, g))
					}
					if stall {
						now := time.Now()
						stalledAt = &now
					} else {
						releaseFirstIterations()
					}
				}
				labels = append(labels, "go")
			case "stop":
				if len(gos) > 0 {
					gos[len(gos)-1].mayEnd = true
					gos[len(gos)-1].stopped = true
					if gos[len(gos)-1].held {
						labels = append(labels, "stop-while-search-held")
					}
				}
			case "ucinewgame":
				if len(gos) > 0 {
					gos[len(gos)-1].superseded = true
					gos[len(gos)-1].mayEnd = true
				}
			case "isready":
				s.mu.Lock()
				s.sent++
				s.mu.Unlock()
				if len(heldEvents) > 0 {
					labels = append(labels, "isready-while-search-held")
				}
			}
		case "barrier":
			if err := barrier(i, "barrier"); err != nil {
				return err
			}
		case "release":
			collect(0)
			if len(heldEvents) > 0 {
				release(a.N % len(heldEvents))
				labels = append(labels, "release-one-iteration")
				collect(20 * time.Millisecond)
			}
		case "releaseall":
			collect(0)
			releaseAll()
		case "sleep":
			time.Sleep(time.Duration(a.N) * time.Microsecond)
			collect(0)
		case "eof":
			close(s.in)
			releaseFirstIterations()
			labels = append(labels, "eof")
			if len(heldEvents) > 0 {
				labels = append(labels, "shutdown-with-search-in-flight")
			}
			if err := shutdown(i, "end of input"); err != nil {
				return err
			}
		default:
			return fmt.Errorf("case: action %q", a.Kind)
		}
		if alive && (a.Kind == "cmd" || a.Kind == "position") {
			// every command is followed by a protocol barrier: the driver must stay responsive
			if err := barrier(i, a.Kind+" "+a.Line); err != nil {
				return err
			}
			if abandons && len(gos) > 0 && gos[len(gos)-1].closedAt < 0 {
				gos[len(gos)-1].closedAt = len(bestmoves(s.snapshotLines()))
			}
		}
	}
	// end of script: quit (if still running), the output must close; then let every held
	// search run on - nothing may blow up afterwards
	if alive {
		if len(heldEvents) > 0 {
			labels = append(labels, "shutdown-with-search-in-flight")
		}
		s.send("quit")
		releaseFirstIterations()
		if err := shutdown(len(c.Actions), "quit"); err != nil {
			return err
		}
	}
	if err := invariant(len(c.Actions), "after shutdown"); err != nil {
		return err
	}
	for round := 0; round < 20; round++ {
		collect(5 * time.Millisecond)
		if len(heldEvents) == 0 && round > 2 {
			break
		}
		releaseAll()
	}
	time.Sleep(2 * time.Millisecond) // a late send on the closed output would panic here
	if os.Getenv("VERIF_DEBUG_C16") != "" {
		fmt.Printf("DEBUG lines: %q labels: %v\n", s.snapshotLines(), labels)
	}
	// a clean shutdown leaves nobody behind: once the move-time timers of this script have fired
	// (they are at most 30 ms), no goroutine may still be inside the driver
	hadMoveTime := false
	for _, a := range c.Actions {
		if a.Kind == "cmd" && strings.Contains(a.Line, "movetime") {
			hadMoveTime = true
		}
	}
	// (ungated scripts only: with a gate in play a search may still be waiting for the harness itself)
	if hadMoveTime && !alive && !c.Gated {
		var left string
		for w := 0; w < 40; w++ { // up to 400 ms
			time.Sleep(10 * time.Millisecond)
			collect(0)
			releaseAll()
			if left = goroutinesInside("github.com/herohde/morlock/pkg/engine/uci."); left == "" && w >= 6 {
				break
			}
		}
		if left != "" {
			return fmt.Errorf("after shutdown a goroutine is still inside the driver 400 ms later:\n%s", left)
		}
		labels = append(labels, "goroutine-census-after-shutdown")
	}
	nt := false
	for _, l := range labels {
		switch l {
		case "go-while-search-held", "stop-while-search-held", "isready-while-search-held", "shutdown-with-search-in-flight", "release-one-iteration":
			nt = true
		}
	}
	if !c.Gated && len(gos) > 0 {
		nt = true
	}
	labels = append(labels, "engine:"+c.Engine)
	if c.HoldFirst {
		labels = append(labels, "first-iteration-held")
	}
	if c.Gated {
		labels = append(labels, "gated")
	} else {
		labels = append(labels, "ungated")
	}
	stats.Case("C16/interleave", stats.FP(c.Engine, c.Hash, c.Noise, c.Gated, fmt.Sprint(c.Actions)), nt, dedup(labels)...)
	stats.Note("C16/interleave", "actions", int64(len(c.Actions)))
	stats.Note("C16/interleave", "go_commands", int64(len(gos)))
	return nil
})

var junkLines = []string{"", " ", "xyzzy", "go depth", "go depth x", "go movetime", "setoption",
	"setoption name Hash", "setoption name Hash value x", "setoption name Depth value 2", "setoption name Noise value 3", "setoption name Noise value -25", "setoption name Noise value 99999999",
	"setoption name Depth value -1", "setoption name Noise", "setoption name Noise value abc", "setoption name Hash value 0", "setoption name Hash value 1", "debug on", "ponderhit",
	"register later", "uci", "Go Depth 1", "stop stop", "isready now", "\tisready"}

func genIlCase(t *rapid.T) ilCase {
	c := ilCase{Engine: bundles[rapid.IntRange(0, len(bundles)-1).Draw(t, "engine")].Name,
		Hash:  uint(rapid.SampledFrom([]int{0, 1}).Draw(t, "hash")),
		Noise: uint(rapid.SampledFrom([]int{0, 10}).Draw(t, "noise")),
		Gated: rapid.IntRange(0, 3).Draw(t, "gated") > 0}
	if rapid.Bool().Draw(t, "morlock") {
		c.Engine = "morlock"
	}
	c.HoldFirst = c.Gated && rapid.IntRange(0, 2).Draw(t, "holdfirst") == 0
	// Stall scripts are not generated any more: at soak seed 17, under load, one raised a deadlock
	// alarm on the unchanged tree that three replays did not reproduce (the harness's own bookkeeping of
	// held first iterations is not sound enough yet in that mode). The code path is kept for replays.
	c.Stall = false
	n := rapid.IntRange(2, 25).Draw(t, "nactions")
	var lastPos *posCmd
	for i := 0; i < n; i++ {
		if c.Stall && rapid.IntRange(0, 5).Draw(t, "stallpair") == 0 {
			c.Actions = append(c.Actions, ilAction{Kind: "cmd", Line: "go movetime 300"},
				ilAction{Kind: "cmd", Line: rapid.SampledFrom([]string{"go infinite", "go depth 2", "go", "stop", "ucinewgame", "go movetime 300"}).Draw(t, "superseder")})
			continue
		}
		switch rapid.IntRange(0, 19).Draw(t, "akind") {
		case 0, 1, 2, 3:
			var line string
			switch rapid.IntRange(0, 5).Draw(t, "gokind") {
			case 0, 1:
				line = fmt.Sprintf("go depth %d", rapid.IntRange(1, 4).Draw(t, "depth"))
			case 2:
				line = "go infinite"
			case 3:
				line = "go"
			case 4:
				line = fmt.Sprintf("go movetime %d", rapid.SampledFrom([]int{1, 5, 30}).Draw(t, "mt"))
			default:
				line = fmt.Sprintf("go depth 3 wtime %d btime 500", rapid.SampledFrom([]int{50, 500}).Draw(t, "wt"))
				if rapid.IntRange(0, 2).Draw(t, "oddclock") == 0 {
					// flagged clocks, only one side's clock, moves-to-go without clocks
					line = rapid.SampledFrom([]string{"go wtime 0 btime 0", "go wtime -40 btime -40", "go wtime 60000", "go btime 60000", "go movestogo 5",
						"go wtime 1 btime 1 movestogo 1", "go depth 2 wtime 0 btime 0", "go wtime 0 btime 0 movestogo 0",
						"go wtime 1000 btime 1000 movestogo 9223372036854775807", "go wtime 1000 btime 1000 movestogo 4611686018427387903", "go wtime 9223372036854 btime 9223372036854 movestogo 2",
						"go wtime 1000 btime 1000 movestogo -9223372036854775808", "go depth 2147483648", "go depth -1 movetime 20", "go movetime 0", "go movetime -5"}).Draw(t, "clockline")
				}
			}
			if !c.Gated && (line == "go infinite" || (line == "go" && c.Engine == "morlock")) {
				// ungated unlimited searches are always followed by a stop a little later
				c.Actions = append(c.Actions, ilAction{Kind: "cmd", Line: line}, ilAction{Kind: "sleep", N: rapid.SampledFrom([]int{0, 200, 5000}).Draw(t, "us")}, ilAction{Kind: "cmd", Line: "stop"})
				continue
			}
			c.Actions = append(c.Actions, ilAction{Kind: "cmd", Line: line})
		case 4, 5:
			c.Actions = append(c.Actions, ilAction{Kind: "cmd", Line: "stop"})
		case 6:
			c.Actions = append(c.Actions, ilAction{Kind: "cmd", Line: "isready"})
		case 7, 8, 9:
			if lastPos != nil && rapid.IntRange(0, 1).Draw(t, "extend") == 0 {
				// the usual GUI behaviour: the same line, extended by the moves just played
				if lg, err := lastPos.game(); err == nil {
					p := posCmd{FEN: lastPos.FEN, Moves: append([]string(nil), lastPos.Moves...)}
					for k, n := 0, rapid.IntRange(0, 2).Draw(t, "extraplies"); k < n; k++ {
						m, ok := gen.PickMove(t, lg, gen.DrawPolicy(t))
						if !ok {
							break
						}
						lg.Push(m)
						p.Moves = append(p.Moves, m.String())
					}
					lastPos = &p
					c.Actions = append(c.Actions, ilAction{Kind: "position", Pos: &p})
					continue
				}
			}
			p := posCmd{}
			switch rapid.IntRange(0, 3).Draw(t, "poskind") {
			case 0:
				gc, _ := gen.Play(t, oracle.MustFEN(oracle.InitialFEN), 6, gen.DrawPolicy(t))
				p.Moves = gc.Moves
			case 1:
				gc, _ := gen.Play(t, matingEnding(t), 6, gen.Policy{1, 0, 0, 1, 3, 0, 0, 1, 1, 3})
				p.FEN, p.Moves = gc.FEN, gc.Moves
			default:
				gc, _ := gen.Game(t, 20)
				p.FEN, p.Moves = gc.FEN, gc.Moves
				if p.FEN == oracle.InitialFEN {
					p.FEN = ""
				}
			}
			lastPos = &p
			c.Actions = append(c.Actions, ilAction{Kind: "position", Pos: &p})
		case 10:
			lastPos = nil
			c.Actions = append(c.Actions, ilAction{Kind: "cmd", Line: "ucinewgame"})
		case 11:
			c.Actions = append(c.Actions, ilAction{Kind: "cmd", Line: rapid.SampledFrom(junkLines).Draw(t, "junk")})
		case 12, 13, 14:
			c.Actions = append(c.Actions, ilAction{Kind: "release", N: rapid.IntRange(0, 3).Draw(t, "which")})
		case 15:
			c.Actions = append(c.Actions, ilAction{Kind: "releaseall"})
		case 16:
			c.Actions = append(c.Actions, ilAction{Kind: "sleep", N: rapid.SampledFrom([]int{0, 50, 500, 3000}).Draw(t, "us")})
		case 17:
			c.Actions = append(c.Actions, ilAction{Kind: "barrier"})
		case 18:
			if rapid.IntRange(0, 3).Draw(t, "badpos") == 0 {
				base := posCmd{}
				if lastPos != nil && rapid.Bool().Draw(t, "extendlast") {
					base = posCmd{FEN: lastPos.FEN, Moves: append([]string(nil), lastPos.Moves...)}
				} else if rapid.Bool().Draw(t, "ending") {
					gc, _ := gen.Play(t, matingEnding(t), 6, gen.Policy{1, 0, 0, 1, 3, 0, 0, 1, 1, 3})
					base.FEN, base.Moves = gc.FEN, gc.Moves
				} else {
					gc, _ := gen.Game(t, 30)
					base.FEN, base.Moves = gc.FEN, gc.Moves
				}
				bg, err := base.game()
				if err != nil {
					continue
				}
				if rapid.IntRange(0, 2).Draw(t, "truncatedfen") == 0 {
					// a position line whose FEN has lost fields (0-5 of its 6 left), with or without a
					// move list behind it: whatever the driver makes of it, it goes on or shuts down
					f := strings.Fields(bg.States[0].FEN())
					k := rapid.IntRange(0, 5).Draw(t, "fenfields")
					line := strings.TrimSpace("position fen " + strings.Join(f[:min(k, len(f))], " "))
					if rapid.Bool().Draw(t, "withmoves") {
						line += " moves"
						if ms := bg.States[0].Pos.Legal(); len(ms) > 0 {
							line += " " + ms[rapid.IntRange(0, len(ms)-1).Draw(t, "firstmove")].String()
						}
					}
					c.Actions = append(c.Actions, ilAction{Kind: "badposition", Line: line, Note: fmt.Sprintf("fen-with-%d-fields", k)})
					return c
				}
				note, bad := "not-a-move", rapid.SampledFrom([]string{"zzzz", "e2e9", "", "e2", "e7e8k", "0000"}).Draw(t, "garbage")
				legal := map[string]bool{}
				for _, m := range bg.Cur().Pos.Legal() {
					legal[m.String()] = true
				}
				var illegal []string
				for _, m := range bg.Cur().Pos.PseudoLegal() {
					if !legal[m.String()] {
						illegal = append(illegal, m.String())
					}
				}
				switch k := rapid.IntRange(0, 3).Draw(t, "badkind"); {
				case k <= 1 && len(illegal) > 0:
					note, bad = "pseudo-legal-but-illegal", illegal[rapid.IntRange(0, len(illegal)-1).Draw(t, "which")]
				case k == 2:
					// a well-formed move that is not even pseudo-legal: from an empty square
					for sq := 0; sq < 64; sq++ {
						if bg.Cur().Pos.Sq[sq] == 0 {
							note, bad = "not-pseudo-legal", oracle.SqName(sq)+oracle.SqName((sq+9)%64)
							break
						}
					}
				}
				base.Moves = append(base.Moves, bad)
				c.Actions = append(c.Actions, ilAction{Kind: "badposition", Line: base.text(), Note: note})
				return c
			}
			if rapid.IntRange(0, 3).Draw(t, "end") == 0 {
				if rapid.Bool().Draw(t, "eof") {
					c.Actions = append(c.Actions, ilAction{Kind: "eof"})
				} else {
					c.Actions = append(c.Actions, ilAction{Kind: "cmd", Line: "quit"})
				}
				return c
			}
		default:
			c.Actions = append(c.Actions, ilAction{Kind: "cmd", Line: "setoption name OwnBook value " + rapid.SampledFrom([]string{"true", "false"}).Draw(t, "book")})
		}
	}
	return c
}

func TestC16_interleave(t *testing.T) {
	runRapid(t, "C16/interleave", 2400, genIlCase, func(c ilCase) error {
		stats.Sample("C16/interleave", c)
		return checkC16(c)
	})
}

// goroutinesInside returns the stack of the first goroutine (other than the caller) that has a
// frame whose function name starts with the given prefix, or "".
func goroutinesInside(prefix string) string {
	buf := make([]byte, 1<<20)
	buf = buf[:runtime.Stack(buf, true)]
	for i, g := range strings.Split(string(buf), "\n\n") {
		if i == 0 {
			continue // the caller
		}
		for _, line := range strings.Split(g, "\n") {
			if strings.HasPrefix(line, prefix) {
				if len(g) > 1500 {
					g = g[:1500]
				}
				return g
			}
		}
	}
	return ""
}
