package props

import (
	"context"
	"fmt"
	"reflect"
	"sync"
	"sync/atomic"
	"testing"
	"time"

	"github.com/herohde/morlock/pkg/board"
	"github.com/herohde/morlock/pkg/engine"
	"github.com/herohde/morlock/pkg/eval"
	"github.com/herohde/morlock/pkg/search"
	"github.com/herohde/morlock/pkg/search/searchctl"
	"pgregory.net/rapid"
	"verifharness/gen"
	"verifharness/stats"
)

// ttOp is one table operation of one goroutine.
type ttOp struct {
	Op    string `json:"op"` // w | r | u
	Key   int    `json:"key"`
	Depth int    `json:"depth,omitempty"`
	Ply   int    `json:"ply,omitempty"`
}

type ttProgram struct {
	TableBytes uint64   `json:"table_bytes"`
	Keys       []uint64 `json:"keys"`     // hashes; chosen to collide in few slots
	Threads    [][]ttOp `json:"threads"`  // one op list per goroutine
	Rounds     int      `json:"rounds"`   // the program is run this many times on fresh tables
	Monitors   bool     `json:"monitors"` // run a monitor goroutine per key
}

type payload struct {
	bound search.Bound
	depth int
	ply   int
	score eval.Score
	move  board.Move
}

// tagged builds the payload of write #seq of goroutine w for hash h: every field is a
// function of (w, seq, h), so a tuple mixed from two stores cannot verify.
func tagged(w, seq int, h uint64, depth, ply int) payload {
	m := mix64(h ^ uint64(w)<<40 ^ uint64(seq)<<8 ^ 0xabcdef)
	if (m>>32)%5 == 0 {
		// a store without a move (what the searches write for leaves and quiescence results)
		return payload{bound: search.Bound(m & 1), depth: depth, ply: ply,
			score: eval.Score{Type: eval.Heuristic, Pawns: eval.Pawns(float32(uint32(w)<<19 | uint32(seq&0x7ffff)))}}
	}
	return payload{
		bound: search.Bound(m & 1),
		depth: depth,
		ply:   ply,
		score: eval.Score{Type: eval.Heuristic, Pawns: eval.Pawns(float32(uint32(w)<<19 | uint32(seq&0x7ffff)))},
		move:  board.Move{From: board.Square((m >> 8) & 63), To: board.Square((m >> 16) & 63), Promotion: board.Piece((m>>24)%6 + 1)},
	}
}

func replacementValue(p payload) uint16 { return uint16(p.ply) + (uint16(p.depth) << 1) }

var checkC17 = def("C17/concurrent", func(c ttProgram) error {
	journal("C17/concurrent", c)
	defer clearJournal()
	for round := 0; round < max(1, c.Rounds); round++ {
		if err := runTTProgram(c, round); err != nil {
			return err
		}
	}
	// classification
	slotOf := func(tt search.TranspositionTable, h uint64) uint64 { return h & (tt.Size()/32 - 1) }
	tt := search.NewTranspositionTable(context.Background(), c.TableBytes)
	writersPerSlotDiffHash, writersSameHash := false, false
	type wk struct {
		w int
		h uint64
	}
	bySlot := map[uint64][]wk{}
	for w, ops := range c.Threads {
		for _, op := range ops {
			if op.Op == "w" {
				h := c.Keys[op.Key%len(c.Keys)]
				bySlot[slotOf(tt, h)] = append(bySlot[slotOf(tt, h)], wk{w, h})
			}
		}
	}
	for _, l := range bySlot {
		for i := range l {
			for j := range l {
				if l[i].w != l[j].w {
					if l[i].h == l[j].h {
						writersSameHash = true
					} else {
						writersPerSlotDiffHash = true
					}
				}
			}
		}
	}
	var labels []string
	if writersSameHash {
		labels = append(labels, "concurrent-writers-same-hash")
	}
	if writersPerSlotDiffHash {
		labels = append(labels, "concurrent-writers-same-slot-different-hash")
	}
	labels = append(labels, fmt.Sprintf("slots:%d", tt.Size()/32), fmt.Sprintf("goroutines:%d", len(c.Threads)))
	stats.Case("C17/concurrent", stats.FP(fmt.Sprint(c)), writersSameHash && writersPerSlotDiffHash, labels...)
	return nil
})

func runTTProgram(c ttProgram, round int) error {
	tt := search.NewTranspositionTable(context.Background(), c.TableBytes)
	slots := tt.Size() / 32
	mask := slots - 1
	// all payloads that will ever be written, per hash, keyed by their tag (the score)
	written := map[uint64]map[eval.Pawns]payload{}
	for w, ops := range c.Threads {
		for seq, op := range ops {
			if op.Op != "w" {
				continue
			}
			h := c.Keys[op.Key%len(c.Keys)]
			p := tagged(w, seq, h, op.Depth, op.Ply)
			if written[h] == nil {
				written[h] = map[eval.Pawns]payload{}
			}
			written[h][p.score.Pawns] = p
		}
	}
	verify := func(h uint64, bound search.Bound, depth int, score eval.Score, move board.Move) (payload, error) {
		p, ok := written[h][score.Pawns]
		if !ok {
			return p, fmt.Errorf("Read(%x) returned score %v, which no store for that hash wrote", h, score)
		}
		if p.bound != bound || p.depth != depth || p.score != score || p.move.From != move.From || p.move.To != move.To || p.move.Promotion != move.Promotion {
			return p, fmt.Errorf("Read(%x) returned (bound %v, depth %d, score %v, move %v-%v=%v), a mixture: the store tagged %v wrote (bound %v, depth %d, move %v-%v=%v)",
				h, bound, depth, score, move.From, move.To, move.Promotion, score, p.bound, p.depth, p.move.From, p.move.To, p.move.Promotion)
		}
		return p, nil
	}
	var firstErr atomic.Value
	fail := func(err error) {
		firstErr.CompareAndSwap(nil, err)
	}
	var accepted sync.Map // slot -> true when some write to it was accepted
	var wg sync.WaitGroup
	start := make(chan struct{})
	var done atomic.Bool
	for w, ops := range c.Threads {
		w, ops := w, ops
		wg.Add(1)
		go func() {
			defer wg.Done()
			<-start
			for seq, op := range ops {
				h := c.Keys[op.Key%len(c.Keys)]
				switch op.Op {
				case "w":
					p := tagged(w, seq, h, op.Depth, op.Ply)
					if tt.Write(board.ZobristHash(h), p.bound, p.ply, p.depth, p.score, p.move) {
						accepted.Store(h&mask, true)
					}
				case "r":
					if b, d, s, m, ok := tt.Read(board.ZobristHash(h)); ok {
						if _, err := verify(h, b, d, s, m); err != nil {
							fail(err)
						}
					}
				case "u":
					if u := tt.Used(); u < 0 || u > 1 {
						fail(fmt.Errorf("Used() = %v, outside [0,1]", u))
					}
				}
			}
		}()
	}
	// monitors: per slot, the replacement value of the resident entry must never decrease
	var mwg sync.WaitGroup
	if c.Monitors {
		bySlot := map[uint64][]uint64{}
		for _, h := range c.Keys {
			bySlot[h&mask] = append(bySlot[h&mask], h)
		}
		for slot, hs := range bySlot {
			slot, hs := slot, hs
			mwg.Add(1)
			go func() {
				defer mwg.Done()
				<-start
				last := -1
				for !done.Load() {
					for _, h := range hs {
						if b, d, s, m, ok := tt.Read(board.ZobristHash(h)); ok {
							p, err := verify(h, b, d, s, m)
							if err != nil {
								fail(err)
								return
							}
							v := int(replacementValue(p))
							if v < last {
								fail(fmt.Errorf("slot %d: resident replacement value went from %d to %d: a store replaced an entry of greater value", slot, last, v))
								return
							}
							last = v
						}
					}
				}
			}()
		}
	}
	close(start)
	wg.Wait()
	done.Store(true)
	mwg.Wait()
	if err, _ := firstErr.Load().(error); err != nil {
		return fmt.Errorf("round %d, %d slots, %d goroutines: %v", round, slots, len(c.Threads), err)
	}
	// after all goroutines have joined: fill fraction counts every occupied slot exactly once
	occupied := 0
	accepted.Range(func(_, _ any) bool { occupied++; return true })
	u := tt.Used()
	if u < 0 || u > 1 {
		return fmt.Errorf("round %d: Used() = %v, outside [0,1]", round, u)
	}
	if got := u * float64(slots); got != float64(occupied) {
		return fmt.Errorf("round %d, %d slots, %d goroutines: Used() x slots = %v but %d distinct slots hold an entry", round, slots, len(c.Threads), got, occupied)
	}
	// every resident entry verifies, and at quiescence each occupied slot answers for exactly one of its hashes
	for _, h := range c.Keys {
		if b, d, s, m, ok := tt.Read(board.ZobristHash(h)); ok {
			if _, err := verify(h, b, d, s, m); err != nil {
				return fmt.Errorf("round %d: after all stores: %v", round, err)
			}
		}
	}
	return nil
}

func genTTProgram(t *rapid.T) ttProgram {
	c := ttProgram{TableBytes: rapid.SampledFrom([]uint64{32, 64, 128, 256, 2048, 1 << 20}).Draw(t, "table"),
		Rounds: rapid.IntRange(1, 8).Draw(t, "rounds"), Monitors: rapid.IntRange(0, 3).Draw(t, "monitors") > 0}
	slots := c.TableBytes / 32
	nkeys := rapid.IntRange(1, 6).Draw(t, "nkeys")
	for i := 0; i < nkeys; i++ {
		// few slots, several hashes per slot: low bits choose the slot, high bits distinguish
		slot := uint64(rapid.IntRange(0, int(min(slots, 4))-1).Draw(t, "slot"))
		// (hi 0, slot 0 is the hash 0: a legitimate key, and the one an empty slot might be mistaken for)
		hi := uint64(rapid.IntRange(0, 5).Draw(t, "hi"))
		shift := rapid.SampledFrom([]int{40, 40, 32, 63, 20}).Draw(t, "shift")
		k := hi<<shift | slot
		if shift == 20 && slots > 1<<20 {
			k = hi<<40 | slot
		}
		c.Keys = append(c.Keys, k)
	}
	nthreads := rapid.IntRange(2, 16).Draw(t, "threads")
	for w := 0; w < nthreads; w++ {
		n := rapid.IntRange(1, 40).Draw(t, "nops")
		var ops []ttOp
		for i := 0; i < n; i++ {
			switch rapid.IntRange(0, 9).Draw(t, "op") {
			case 0, 1, 2, 3, 4:
				ops = append(ops, ttOp{Op: "w", Key: rapid.IntRange(0, nkeys-1).Draw(t, "key"), Depth: rapid.IntRange(0, 12).Draw(t, "depth"), Ply: rapid.IntRange(1, 60).Draw(t, "ply")})
			case 5, 6, 7, 8:
				ops = append(ops, ttOp{Op: "r", Key: rapid.IntRange(0, nkeys-1).Draw(t, "key")})
			default:
				ops = append(ops, ttOp{Op: "u"})
			}
		}
		c.Threads = append(c.Threads, ops)
	}
	return c
}

func TestC17_concurrent(t *testing.T) {
	runRapid(t, "C17/concurrent", 6000, genTTProgram, func(c ttProgram) error {
		stats.Sample("C17/concurrent", map[string]any{"table_bytes": c.TableBytes, "keys": c.Keys, "goroutines": len(c.Threads), "rounds": c.Rounds, "first_thread": c.Threads[0]})
		return checkC17(c)
	})
}

// seqCase: a single-goroutine program checked against the sequential replacement model.
var checkC17Seq = def("C17/sequential", func(c ttProgram) error {
	tt := search.NewTranspositionTable(context.Background(), c.TableBytes)
	slots := tt.Size() / 32
	mask := slots - 1
	type resident struct {
		h uint64
		p payload
	}
	model := map[uint64]*resident{}
	ops := c.Threads[0]
	for seq, op := range ops {
		h := c.Keys[op.Key%len(c.Keys)]
		switch op.Op {
		case "w":
			p := tagged(0, seq, h, op.Depth, op.Ply)
			got := tt.Write(board.ZobristHash(h), p.bound, p.ply, p.depth, p.score, p.move)
			cur := model[h&mask]
			want := cur == nil || replacementValue(cur.p) <= replacementValue(p)
			if got != want {
				return fmt.Errorf("op %d: Write(%x, depth %d, ply %d) = %v; resident value %v, new value %d: a store replaces exactly an entry of no greater replacement value", seq, h, op.Depth, op.Ply, got, cur, replacementValue(p))
			}
			if want {
				model[h&mask] = &resident{h, p}
			}
		case "r":
			b, d, s, m, ok := tt.Read(board.ZobristHash(h))
			cur := model[h&mask]
			wantOK := cur != nil && cur.h == h
			if ok != wantOK {
				return fmt.Errorf("op %d: Read(%x) found=%v, model says %v", seq, h, ok, wantOK)
			}
			if ok && (b != cur.p.bound || d != cur.p.depth || s != cur.p.score || m.From != cur.p.move.From || m.To != cur.p.move.To || m.Promotion != cur.p.move.Promotion) {
				return fmt.Errorf("op %d: Read(%x) returned (%v,%d,%v,%v), model holds (%v,%d,%v,%v)", seq, h, b, d, s, m, cur.p.bound, cur.p.depth, cur.p.score, cur.p.move)
			}
		case "u":
			if got, want := tt.Used(), float64(len(model))/float64(slots); got != want {
				return fmt.Errorf("op %d: Used() = %v, %d of %d slots are occupied", seq, got, len(model), slots)
			}
		}
	}
	stats.Case("C17/sequential", stats.FP(fmt.Sprint(c)), len(model) > 0, fmt.Sprintf("slots:%d", slots))
	return nil
})

func TestC17_sequential(t *testing.T) {
	runRapid(t, "C17/sequential", 20000, func(t *rapid.T) ttProgram {
		c := genTTProgram(t)
		c.Threads = c.Threads[:1]
		return c
	}, func(c ttProgram) error {
		stats.Sample("C17/sequential", c)
		return checkC17Seq(c)
	})
}

// ---------------------------------------------------------------------------------------
// Engine level: a halted search is still unwinding on the table while the engine is reset and
// its successor starts. Afterwards the fill fraction of every table the engine ever used must
// count its occupied slots exactly once. The occupied slots are counted by reflection over the
// table's slot array (read-only, after all searches have returned).

type countingSearch struct {
	inner    search.Search
	inflight atomic.Int64
	calls    atomic.Int64
}

func (c *countingSearch) Search(ctx context.Context, sctx *search.Context, b *board.Board, depth int) (uint64, eval.Score, []board.Move, error) {
	c.inflight.Add(1)
	c.calls.Add(1)
	defer c.inflight.Add(-1)
	return c.inner.Search(ctx, sctx, b, depth)
}

// quiesce waits until no search call is running and none has started for a while (a halted
// analysis may still be between two iterations when its quit signal arrives).
func (c *countingSearch) quiesce() bool {
	deadline := time.Now().Add(uciGrace)
	for time.Now().Before(deadline) {
		before := c.calls.Load()
		if c.inflight.Load() == 0 {
			time.Sleep(3 * time.Millisecond)
			if c.inflight.Load() == 0 && c.calls.Load() == before {
				return true
			}
			continue
		}
		time.Sleep(200 * time.Microsecond)
	}
	return false
}

// occupiedSlots counts the non-empty slots of the repository's table by reflection.
func occupiedSlots(tt search.TranspositionTable) (occupied, slots int, ok bool) {
	v := reflect.ValueOf(tt)
	for v.Kind() == reflect.Interface || v.Kind() == reflect.Ptr {
		if v.IsNil() {
			return 0, 0, false
		}
		v = v.Elem()
	}
	if v.Kind() != reflect.Struct {
		return 0, 0, false
	}
	f := v.FieldByName("table")
	if !f.IsValid() || f.Kind() != reflect.Slice {
		return 0, 0, false
	}
	for i := 0; i < f.Len(); i++ {
		if !f.Index(i).IsNil() {
			occupied++
		}
	}
	return occupied, f.Len(), true
}

type engineTTCase struct {
	FENs     []string `json:"fens"`      // positions the engine is reset to, in turn
	DelaysUS []int    `json:"delays_us"` // real time an analysis runs before the next reset
	HashMB   uint     `json:"hash_mb"`
}

var checkC17Engine = def("C17/engine", func(c engineTTCase) error {
	journal("C17/engine", c)
	defer clearJournal()
	ctx := context.Background()
	var mu sync.Mutex
	var tables []search.TranspositionTable
	factory := func(ctx context.Context, size uint64) search.TranspositionTable {
		t := search.NewTranspositionTable(ctx, size)
		mu.Lock()
		tables = append(tables, t)
		mu.Unlock()
		return t
	}
	cs := &countingSearch{inner: search.AlphaBeta{Eval: search.Leaf{Eval: SynthEval{}}}}
	e := engine.New(ctx, "verif", "verif", cs, engine.WithOptions(engine.Options{Hash: c.HashMB}), engine.WithTable(factory))
	for i, f := range c.FENs {
		if err := e.Reset(ctx, f); err != nil {
			return err
		}
		if _, err := e.Analyze(ctx, searchctl.Options{}); err != nil {
			return fmt.Errorf("Analyze: %v", err)
		}
		if d := c.DelaysUS[i%len(c.DelaysUS)]; d > 0 {
			time.Sleep(time.Duration(d) * time.Microsecond)
		}
	}
	_, _ = e.Halt(ctx)
	if !cs.quiesce() { // every search, halted or not, has returned: the tables are quiet
		return fmt.Errorf("searches still running %v after the engine was halted", uciGrace)
	}
	observable := 0
	for i, t := range tables {
		occ, slots, ok := occupiedSlots(t)
		if !ok {
			continue
		}
		observable++
		u := t.Used()
		if u < 0 || u > 1 {
			return fmt.Errorf("table #%d: Used() = %v, outside [0,1]", i, u)
		}
		if got := int(u*float64(slots) + 0.5); got != occ {
			return fmt.Errorf("table #%d of %d (engine reset %d times while searches were in flight): Used() x slots = %d, but %d slots hold an entry", i, len(tables), len(c.FENs), got, occ)
		}
	}
	lab := "tables-observable"
	if observable == 0 {
		lab = "tables-not-observable"
	}
	stats.Case("C17/engine", stats.FP(fmt.Sprint(c)), len(c.FENs) >= 2 && observable > 0, lab)
	return nil
})

func TestC17_engine(t *testing.T) {
	runRapid(t, "C17/engine", 300, func(t *rapid.T) engineTTCase {
		c := engineTTCase{HashMB: 1}
		for i, n := 0, rapid.IntRange(2, 6).Draw(t, "resets"); i < n; i++ {
			c.FENs = append(c.FENs, gen.Pool[rapid.IntRange(0, len(gen.Pool)-1).Draw(t, "pool")])
			c.DelaysUS = append(c.DelaysUS, rapid.SampledFrom([]int{0, 20, 200, 1500}).Draw(t, "delay"))
		}
		return c
	}, func(c engineTTCase) error {
		stats.Sample("C17/engine", c)
		return checkC17Engine(c)
	})
}
