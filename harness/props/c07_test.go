package props

import (
	"fmt"
	"testing"

	"github.com/herohde/morlock/pkg/board"
	"pgregory.net/rapid"
	"verifharness/bridge"
	"verifharness/gen"
	"verifharness/oracle"
	"verifharness/stats"
)

// hashCase: a game with take-backs interleaved ("pop" entries), on a table with a drawn seed.
type hashCase struct {
	Seed int64    `json:"zobrist_seed"`
	FEN  string   `json:"fen"`
	Ops  []string `json:"ops"` // coordinate move or "pop"; "fork" forks the board; "f:<op>" applies <op> to the fork
}

var hashSeeds = []int64{0, 1, -1, 42, 1 << 40, 987654321}

// checkC07Walk: after every push and pop the incremental hash equals the hash from scratch.
// Path independence is also checked directly: whenever the same position (placement, side,
// rights, e.p.) is reached again in the case, the hashes reported must be equal.
var checkC07Walk = def("C07/walk", func(c hashCase) error {
	st, err := oracle.ParseFEN(c.FEN)
	if err != nil {
		return fmt.Errorf("case: %v", err)
	}
	zt := board.NewZobristTable(c.Seed)
	b := bridge.Board(zt, st)
	g := oracle.NewGame(st)
	seen := map[oracle.Pos]board.ZobristHash{}
	byHash := map[board.ZobristHash]oracle.Pos{}
	var labels []string
	var fb *board.Board // the fork, if any, and its game
	var fg *oracle.Game
	mainB, mainG := b, g
	judge := func(i int, op string) error {
		// both boards are judged after every operation: a fork and its origin are independent
		for k, bb := range []*board.Board{mainB, fb} {
			if bb == nil {
				continue
			}
			gg := mainG
			if k == 1 {
				gg = fg
			}
			if sc := zt.Hash(bb.Position(), bb.Turn()); bb.Hash() != sc {
				return fmt.Errorf("op %d (%s): %s reports Hash()=%x but the hash from scratch of its position %s is %x", i, op, []string{"the board forked from", "the fork"}[k], uint64(bb.Hash()), gg.Cur().Pos.KeyFEN(), uint64(sc))
			}
			if got := bridge.OPos(bb.Position(), bb.Turn()); got != gg.Cur().Pos {
				return fmt.Errorf("op %d (%s): %s at %s, oracle at %s", i, op, []string{"the board forked from", "the fork"}[k], got.KeyFEN(), gg.Cur().Pos.KeyFEN())
			}
		}
		scratch := zt.Hash(b.Position(), b.Turn())
		if b.Hash() != scratch {
			return fmt.Errorf("op %d (%s): Board.Hash()=%x but hash from scratch=%x at %s", i, op, uint64(b.Hash()), uint64(scratch), g.Cur().Pos.KeyFEN())
		}
		cur := g.Cur().Pos
		if got := bridge.OPos(b.Position(), b.Turn()); got != cur {
			return fmt.Errorf("op %d (%s): board at %s, oracle at %s", i, op, got.KeyFEN(), cur.KeyFEN())
		}
		if h, ok := seen[cur]; ok && h != b.Hash() {
			return fmt.Errorf("op %d (%s): position %s had hash %x before and %x now", i, op, cur.KeyFEN(), uint64(h), uint64(b.Hash()))
		}
		seen[cur] = b.Hash()
		if other, ok := byHash[b.Hash()]; ok && other != cur {
			return fmt.Errorf("op %d (%s): positions %s and %s share hash %x", i, op, other.KeyFEN(), cur.KeyFEN(), uint64(b.Hash()))
		}
		byHash[b.Hash()] = cur
		return nil
	}
	if err := judge(-1, "setup"); err != nil {
		return err
	}
	for i, op := range c.Ops {
		b, g = mainB, mainG
		if op == "fork" {
			fb, fg = mainB.Fork(), mainG.Clone()
			labels = append(labels, "fork")
			if err := judge(i, op); err != nil {
				return err
			}
			continue
		}
		if len(op) > 2 && op[:2] == "f:" {
			if fb == nil {
				return fmt.Errorf("case: op %d on a fork that does not exist", i)
			}
			b, g, op = fb, fg, op[2:]
			labels = append(labels, "op-on-fork")
		}
		if op == "pop" {
			_, ok := b.PopMove()
			if ok != g.Pop() {
				return fmt.Errorf("op %d: PopMove ok=%v disagrees with the model", i, ok)
			}
			labels = append(labels, "pop")
		} else {
			om, ok := g.Cur().Pos.FindMove(op)
			if !ok {
				return fmt.Errorf("case: op %d (%s) not legal", i, op)
			}
			ml, _ := moveLabels(&g.Cur().Pos, om)
			labels = append(labels, ml...)
			if om.Captured != 0 {
				labels = append(labels, "capture")
			}
			if _, err := pushOracleMove(b, om); err != nil {
				return fmt.Errorf("op %d: %v", i, err)
			}
			g.Push(om)
		}
		if err := judge(i, op); err != nil {
			return err
		}
	}
	labels = dedup(labels)
	special := false
	for _, l := range labels {
		switch l {
		case "castle", "ep", "promo", "capture-promo", "rights-change":
			special = true
		}
	}
	stats.Case("C07/walk", stats.FP(c.Seed, c.FEN, fmt.Sprint(c.Ops)), special, labels...)
	stats.Note("C07/walk", "hash_comparisons", int64(len(c.Ops)+1))
	return nil
})

func genHashCase(t *rapid.T) hashCase {
	c := hashCase{Seed: rapid.SampledFrom(hashSeeds).Draw(t, "seed")}
	if rapid.IntRange(0, 3).Draw(t, "randseed") == 0 {
		c.Seed = rapid.Int64().Draw(t, "seedv")
	}
	st := gen.Start(t)
	c.FEN = st.FEN()
	g := oracle.NewGame(st)
	pol := gen.DrawPolicy(t)
	n := rapid.IntRange(0, 70).Draw(t, "ops")
	var fg *oracle.Game
	forkBase := 0
	withFork := rapid.IntRange(0, 2).Draw(t, "withfork") == 0
	for i := 0; i < n; i++ {
		if withFork && rapid.IntRange(0, 11).Draw(t, "fork") == 0 {
			fg, forkBase = g.Clone(), len(g.Moves)
			c.Ops = append(c.Ops, "fork")
			continue
		}
		if fg != nil && rapid.IntRange(0, 2).Draw(t, "onfork") == 0 {
			// an operation on the fork (never below its fork point)
			if len(fg.Moves) > forkBase && rapid.IntRange(0, 4).Draw(t, "fpop") == 0 {
				fg.Pop()
				c.Ops = append(c.Ops, "f:pop")
			} else if m, ok := gen.PickMove(t, fg, pol); ok {
				fg.Push(m)
				c.Ops = append(c.Ops, "f:"+m.String())
			}
			continue
		}
		if len(g.Moves) > 0 && rapid.IntRange(0, 5).Draw(t, "pop") == 0 {
			g.Pop()
			c.Ops = append(c.Ops, "pop")
			continue
		}
		m, ok := gen.PickMove(t, g, pol)
		if !ok {
			if len(g.Moves) == 0 {
				break
			}
			g.Pop()
			c.Ops = append(c.Ops, "pop")
			continue
		}
		g.Push(m)
		c.Ops = append(c.Ops, m.String())
	}
	return c
}

func TestC07_walk(t *testing.T) {
	runRapid(t, "C07/walk", 120000, genHashCase, func(c hashCase) error {
		stats.Sample("C07/walk", c)
		return checkC07Walk(c)
	})
}

// transCase: two move orders from one position that the oracle says reach the same position.
type transCase struct {
	Seed int64    `json:"zobrist_seed"`
	FEN  string   `json:"fen"`
	A, B []string // two lines
}

var checkC07Trans = def("C07/transposition", func(c transCase) error {
	ga, err := gen.GameCase{FEN: c.FEN, Moves: c.A}.Build()
	if err != nil {
		return err
	}
	gb, err := gen.GameCase{FEN: c.FEN, Moves: c.B}.Build()
	if err != nil {
		return err
	}
	if ga.Cur().Pos != gb.Cur().Pos {
		return fmt.Errorf("case: lines do not transpose")
	}
	zt := board.NewZobristTable(c.Seed)
	ba, _, err := buildBoard(zt, gen.GameCase{FEN: c.FEN, Moves: c.A})
	if err != nil {
		return err
	}
	bb, _, err := buildBoard(zt, gen.GameCase{FEN: c.FEN, Moves: c.B})
	if err != nil {
		return err
	}
	if ba.Hash() != bb.Hash() {
		return fmt.Errorf("lines %v and %v reach the same position %s but report hashes %x and %x", c.A, c.B, ga.Cur().Pos.KeyFEN(), uint64(ba.Hash()), uint64(bb.Hash()))
	}
	// and clocks/history do not matter: a board set up directly on the final position
	fresh := bridge.Board(zt, oracle.State{Pos: ga.Cur().Pos, Half: 33, Full: 99})
	if fresh.Hash() != ba.Hash() {
		return fmt.Errorf("position %s reached by play has hash %x, set up directly %x", ga.Cur().Pos.KeyFEN(), uint64(ba.Hash()), uint64(fresh.Hash()))
	}
	rightsDiffer := false
	for i := range ga.States {
		if i < len(gb.States) {
			pa, pb := ga.States[i].Pos, gb.States[i].Pos
			if pa.WK != pb.WK || pa.WQ != pb.WQ || pa.BK != pb.BK || pa.BQ != pb.BQ {
				rightsDiffer = true
			}
		}
	}
	lab := "same-rights-timing"
	if rightsDiffer {
		lab = "rights-lost-at-different-times"
	}
	stats.Case("C07/transposition", stats.FP(c.Seed, c.FEN, fmt.Sprint(c.A), fmt.Sprint(c.B)), true, lab)
	return nil
})

// genTrans draws a position and two own moves a, b and two replies c, d such that both
// a c b d and b c a d (or a d b c) are legal and transpose; constructive search over the
// legal moves, counted when none exists.
func genTrans(t *rapid.T) transCase {
	c := transCase{Seed: rapid.SampledFrom(hashSeeds).Draw(t, "seed")}
	_, g := gen.Game(t, 30)
	st := *g.Cur()
	c.FEN = st.FEN()
	legal := st.Pos.Legal()
	if len(legal) < 2 {
		return c
	}
	try := func(line []oracle.Move) (oracle.Pos, []string, bool) {
		p := st.Pos
		var txt []string
		for _, m := range line {
			mm, ok := p.FindMove(m.String())
			if !ok {
				return p, nil, false
			}
			p = p.Make(mm)
			txt = append(txt, mm.String())
		}
		return p, txt, true
	}
	a := legal[rapid.IntRange(0, len(legal)-1).Draw(t, "a")]
	b := legal[rapid.IntRange(0, len(legal)-1).Draw(t, "b")]
	if a == b {
		return c
	}
	pa := st.Pos.Make(a)
	replies := pa.Legal()
	if len(replies) < 1 {
		return c
	}
	r1 := replies[rapid.IntRange(0, len(replies)-1).Draw(t, "c")]
	r2 := replies[rapid.IntRange(0, len(replies)-1).Draw(t, "d")]
	l1 := []oracle.Move{a, r1, b, r2}
	for _, l2 := range [][]oracle.Move{{b, r1, a, r2}, {a, r2, b, r1}, {b, r2, a, r1}} {
		p1, t1, ok1 := try(l1)
		p2, t2, ok2 := try(l2)
		if ok1 && ok2 && p1 == p2 && fmt.Sprint(t1) != fmt.Sprint(t2) {
			c.A, c.B = t1, t2
			return c
		}
	}
	return c
}

func TestC07_transposition(t *testing.T) {
	runRapid(t, "C07/transposition", 90000, genTrans, func(c transCase) error {
		if c.A == nil {
			stats.Case("C07/transposition", 0, false, "no-transposition-drawn")
			return nil
		}
		stats.Sample("C07/transposition", c)
		return checkC07Trans(c)
	})
}

// sepCase: a position and one single-component change.
type sepCase struct {
	Seed   int64  `json:"zobrist_seed"`
	FEN    string `json:"fen"`
	Change string `json:"change"`
	FEN2   string `json:"changed_fen"`
}

var checkC07Sep = def("C07/separation", func(c sepCase) error {
	s1, err := oracle.ParseFEN(c.FEN)
	if err != nil {
		return err
	}
	s2, err := oracle.ParseFEN(c.FEN2)
	if err != nil {
		return err
	}
	if s1.Pos == s2.Pos {
		return fmt.Errorf("case: positions are equal")
	}
	zt := board.NewZobristTable(c.Seed)
	h1 := bridge.Board(zt, s1).Hash()
	h2 := bridge.Board(zt, s2).Hash()
	if h1 == h2 {
		return fmt.Errorf("positions differing only in %s (%s vs %s) have the same hash %x", c.Change, s1.Pos.KeyFEN(), s2.Pos.KeyFEN(), uint64(h1))
	}
	stats.Case("C07/separation", stats.FP(c.Seed, c.FEN, c.FEN2), true, c.Change)
	return nil
})

func genSep(t *rapid.T) sepCase {
	c := sepCase{Seed: rapid.SampledFrom(hashSeeds).Draw(t, "seed")}
	var st oracle.State
	if rapid.Bool().Draw(t, "synth") {
		st = gen.Synth(t)
	} else {
		_, g := gen.Game(t, 30)
		st = *g.Cur()
	}
	c.FEN = st.FEN()
	p := st.Pos
	var occupied, empty []int
	for s := 0; s < 64; s++ {
		if p.Sq[s] != 0 {
			occupied = append(occupied, s)
		} else {
			empty = append(empty, s)
		}
	}
	switch rapid.IntRange(0, 7).Draw(t, "change") {
	case 0:
		c.Change = "side-to-move"
		p.White = !p.White
	case 1:
		c.Change = "castling-right"
		switch rapid.IntRange(0, 3).Draw(t, "right") {
		case 0:
			p.WK = !p.WK
		case 1:
			p.WQ = !p.WQ
		case 2:
			p.BK = !p.BK
		default:
			p.BQ = !p.BQ
		}
	case 2:
		c.Change = "ep-target"
		r := 5
		if !p.White {
			r = 2
		}
		f := rapid.IntRange(0, 7).Draw(t, "epfile")
		if int(p.EP) == oracle.Sq(f, r) {
			p.EP = -1
		} else {
			p.EP = int8(oracle.Sq(f, r))
		}
	case 3:
		c.Change = "piece-removed"
		s := occupied[rapid.IntRange(0, len(occupied)-1).Draw(t, "sq")]
		p.Sq[s] = 0
	case 4:
		c.Change = "piece-added"
		s := empty[rapid.IntRange(0, len(empty)-1).Draw(t, "sq")]
		p.Sq[s] = rapid.SampledFrom([]int8{1, 2, 3, 4, 5, -1, -2, -3, -4, -5}).Draw(t, "pc")
	case 5:
		c.Change = "piece-recoloured"
		s := occupied[rapid.IntRange(0, len(occupied)-1).Draw(t, "sq")]
		p.Sq[s] = -p.Sq[s]
	case 6:
		c.Change = "piece-kind-changed"
		s := occupied[rapid.IntRange(0, len(occupied)-1).Draw(t, "sq")]
		k := p.Sq[s]
		nk := rapid.SampledFrom([]int8{1, 2, 3, 4, 5, 6}).Draw(t, "kind")
		if k < 0 {
			nk = -nk
		}
		if nk == k {
			p.Sq[s] = 0
			c.Change = "piece-removed"
		} else {
			p.Sq[s] = nk
		}
	default:
		c.Change = "piece-moved"
		s := occupied[rapid.IntRange(0, len(occupied)-1).Draw(t, "sq")]
		d := empty[rapid.IntRange(0, len(empty)-1).Draw(t, "dst")]
		p.Sq[d], p.Sq[s] = p.Sq[s], 0
	}
	c.FEN2 = oracle.State{Pos: p, Half: st.Half, Full: st.Full}.FEN()
	return c
}

func TestC07_separation(t *testing.T) {
	runRapid(t, "C07/separation", 120000, genSep, func(c sepCase) error {
		stats.Sample("C07/separation", c)
		return checkC07Sep(c)
	})
}

// TestC07_birthday: "positions differing in any component get different hashes (barring a 2^-64
// coincidence)" at scale. Every distinct position met while playing generated games is hashed
// from scratch with one fixed table; two different positions with one hash among the first
// 400 000 of a shard would be a 2^-28-probability event for honest 64-bit keys (4e-9), and is
// expected several times over if the keys carry 32 bits or fewer. A collision is reported as a
// C07/separation case (two FENs, one seed), which replays without this test.
func TestC07_birthday(t *testing.T) {
	const key = "C07/separation"
	const capN = 400_000
	zt := board.NewZobristTable(birthdaySeed)
	met := map[board.ZobristHash]oracle.Pos{}
	var clash *sepCase
	add := func(st *oracle.State) {
		if clash != nil || len(met) >= capN {
			return
		}
		b := bridge.Board(zt, *st)
		h := b.Hash()
		if other, ok := met[h]; ok {
			if other != st.Pos {
				clash = &sepCase{Seed: birthdaySeed, Change: "two positions met in play", FEN: oracle.State{Pos: other, Full: 1}.FEN(), FEN2: oracle.State{Pos: st.Pos, Full: 1}.FEN()}
			}
			return
		}
		met[h] = st.Pos
	}
	runRapid(t, "C07/birthday", 72000, func(t *rapid.T) gen.GameCase {
		gc, _ := gen.Game(t, 60)
		return gc
	}, func(gc gen.GameCase) error {
		g, err := gc.Build()
		if err != nil {
			return err
		}
		for i := range g.States {
			add(&g.States[i])
			// and the neighbours one move away (many near-identical positions)
			if i == len(g.States)-1 {
				for _, m := range g.States[i].Pos.Legal() {
					n := oracle.State{Pos: g.States[i].Pos.Make(m), Full: 1}
					add(&n)
				}
			}
		}
		stats.Eval("C07/birthday", 1)
		return nil
	})
	stats.Note("C07/birthday", "distinct_positions_hashed", int64(len(met)))
	stats.Distinct("C07/birthday", stats.FP("positions", len(met)/1000), "distinct-positions-in-thousands")
	if clash != nil {
		err := checkC07Sep(*clash)
		if err == nil {
			err = fmt.Errorf("positions %s and %s share a hash", clash.FEN, clash.FEN2)
		}
		failCase(t, key, *clash, err)
	}
}

const birthdaySeed = 20261003
