package props

import (
	"context"
	"fmt"
	"sync"
	"testing"
	"time"

	"github.com/herohde/morlock/pkg/board"
	"github.com/herohde/morlock/pkg/engine"
	"github.com/herohde/morlock/pkg/eval"
	"github.com/herohde/morlock/pkg/search"
	"github.com/herohde/morlock/pkg/search/searchctl"
	"github.com/seekerror/stdlib/pkg/lang"
	"pgregory.net/rapid"
	"verifharness/bridge"
	"verifharness/gen"
	"verifharness/oracle"
	"verifharness/stats"
)

type searchOut struct {
	Nodes uint64
	Score eval.Score
	PV    []string
}

func (a searchOut) equal(b searchOut) bool {
	return a.Nodes == b.Nodes && a.Score == b.Score && fmt.Sprint(a.PV) == fmt.Sprint(b.PV)
}

func runSearch(s search.Search, b *board.Board, depth int) (searchOut, error) {
	n, sc, pv, err := s.Search(context.Background(), search.EmptyContext, b, depth)
	return searchOut{n, sc, pvText(pv)}, err
}

// detCase: a main search, an unrelated search to interleave, and two Zobrist seeds.
type detCase struct {
	Main   searchCase `json:"main"`
	Other  searchCase `json:"other"` // unrelated root searched before / alongside
	SeedA  int64      `json:"seed_a"`
	SeedB  int64      `json:"seed_b"`
	Others int        `json:"parallel_others"` // goroutines searching Other alongside
}

var checkC18 = def("C18/deterministic", func(c detCase) error {
	cfg, err := findConfig(c.Main.Config)
	if err != nil {
		return err
	}
	ocfg, err := findConfig(c.Other.Config)
	if err != nil {
		return err
	}
	gc := gen.GameCase{FEN: c.Main.FEN, Moves: c.Main.Moves}
	ba, g, err := buildBoard(board.NewZobristTable(c.SeedA), gc)
	if err != nil {
		return err
	}
	bb, _, err := buildBoard(board.NewZobristTable(c.SeedB), gc)
	if err != nil {
		return err
	}
	bo, _, err := buildBoard(board.NewZobristTable(c.SeedA), gen.GameCase{FEN: c.Other.FEN, Moves: c.Other.Moves})
	if err != nil {
		return err
	}
	where := fmt.Sprintf("%s depth %d at %s (history %d plies)", c.Main.Config, c.Main.Depth, g.Cur().FEN(), len(c.Main.Moves))
	s, _ := cfg.make(c.Main.Param)
	// the reference result: first search on a fresh fork
	r1, err := runSearch(s, ba.Fork(), c.Main.Depth)
	if err != nil {
		return err
	}
	// (1) repeat on a fresh fork
	if r2, _ := runSearch(s, ba.Fork(), c.Main.Depth); !r1.equal(r2) {
		return fmt.Errorf("%s: repeating the search gives %v, first time %v", where, r2, r1)
	}
	// (2) after an unrelated search with the same search object (and the other engine's own)
	if ocfg.Name == cfg.Name {
		if _, err := runSearch(s, bo.Fork(), c.Other.Depth); err != nil {
			return err
		}
	}
	so, _ := ocfg.make(c.Other.Param)
	ro, err := runSearch(so, bo.Fork(), c.Other.Depth)
	if err != nil {
		return err
	}
	// (2b) after a search of the SAME position reached without this history (set up directly:
	// same hash, different past) with the same search object
	if len(c.Main.Moves) > 0 {
		alt := bridge.Board(board.NewZobristTable(c.SeedA), *g.Cur())
		if _, err := runSearch(s, alt, c.Main.Depth); err != nil {
			return err
		}
		if r3b, _ := runSearch(s, ba.Fork(), c.Main.Depth); !r1.equal(r3b) {
			return fmt.Errorf("%s: after searching the same position set up without its history, the search gives %v, before %v", where, r3b, r1)
		}
	}
	if r3, _ := runSearch(s, ba.Fork(), c.Main.Depth); !r1.equal(r3) {
		return fmt.Errorf("%s: after an unrelated search (%s at %s) the search gives %v, before %v", where, c.Other.Config, c.Other.FEN, r3, r1)
	}
	// (3) a separately constructed search object
	s2, _ := cfg.make(c.Main.Param)
	if r4, _ := runSearch(s2, ba.Fork(), c.Main.Depth); !r1.equal(r4) {
		return fmt.Errorf("%s: a second search object gives %v, the first %v", where, r4, r1)
	}
	// (4) a different hash seed
	if r5, _ := runSearch(s2, bb.Fork(), c.Main.Depth); !r1.equal(r5) {
		return fmt.Errorf("%s: with Zobrist seed %d the search gives %v, with seed %d %v", where, c.SeedB, r5, c.SeedA, r1)
	}
	// (4b) a search restricted to a line (search.Context.Ponder), repeated with the very same context
	if line := ponderLine(ba, g, 1+int(uint64(c.SeedB)%2), int(uint64(c.SeedB)>>8%64)); len(line) > 0 {
		sctx := &search.Context{TT: search.NoTranspositionTable{}, Ponder: append([]board.Move(nil), line...)}
		run := func() (searchOut, error) {
			n, sc, pv, err := s2.Search(context.Background(), sctx, ba.Fork(), c.Main.Depth)
			return searchOut{n, sc, pvText(pv)}, err
		}
		ra, erra := run()
		rb, errb := run()
		if erra != nil || errb != nil || !ra.equal(rb) {
			return fmt.Errorf("%s: restricted to the line %s, the same call with the same context gives %v (%v), then %v (%v)", where, pvText(line), ra, erra, rb, errb)
		}
		// (4c) the same restricted search by a search object that has never seen this root, and by one
		// whose previous search was of an unrelated root: what it returns depends on neither
		s3, _ := cfg.make(c.Main.Param)
		n3, sc3, pv3, err3 := s3.Search(context.Background(), &search.Context{TT: search.NoTranspositionTable{}, Ponder: append([]board.Move(nil), line...)}, ba.Fork(), c.Main.Depth)
		if r3 := (searchOut{n3, sc3, pvText(pv3)}); err3 != nil || !ra.equal(r3) {
			return fmt.Errorf("%s: restricted to the line %s, a fresh search object gives %v (%v), one that had searched this root before %v", where, pvText(line), r3, err3, ra)
		}
		s4, _ := cfg.make(c.Main.Param)
		prev, prevDepth, prevName := bo.Fork(), min(c.Other.Depth, 2), c.Other.FEN
		if ocfg.Name != cfg.Name {
			// (a root of another configuration's case may be far too busy for this one: use the
			// position after the first move of the line instead)
			prev, prevDepth, prevName = ba.Fork(), 1, "the position after "+line[0].String()
			prev.PushMove(line[0])
		}
		_, _ = runSearch(s4, prev, prevDepth) // only there to leave its traces in s4
		n4, sc4, pv4, err4 := s4.Search(context.Background(), &search.Context{TT: search.NoTranspositionTable{}, Ponder: append([]board.Move(nil), line...)}, ba.Fork(), c.Main.Depth)
		if r4 := (searchOut{n4, sc4, pvText(pv4)}); err4 != nil || !ra.equal(r4) {
			return fmt.Errorf("%s: restricted to the line %s, a search object whose previous search was of %s gives %v (%v), otherwise %v", where, pvText(line), prevName, r4, err4, ra)
		}
		if !samePV(sctx.Ponder, line) {
			return fmt.Errorf("%s: a search restricted to the line %s changed the caller's context: the line is now %s", where, pvText(line), pvText(sctx.Ponder))
		}
	}
	// (5) alongside other searches on other engines (own search objects), in parallel goroutines
	var wg sync.WaitGroup
	var rmain searchOut
	others := make([]searchOut, c.Others)
	wg.Add(1 + c.Others)
	go func() {
		defer wg.Done()
		sp, _ := cfg.make(c.Main.Param)
		rmain, _ = runSearch(sp, ba.Fork(), c.Main.Depth)
	}()
	for i := 0; i < c.Others; i++ {
		i := i
		go func() {
			defer wg.Done()
			sp, _ := ocfg.make(c.Other.Param)
			others[i], _ = runSearch(sp, bo.Fork(), c.Other.Depth)
		}()
	}
	wg.Wait()
	if !r1.equal(rmain) {
		return fmt.Errorf("%s: searched alongside %d other searches it gives %v, alone %v", where, c.Others, rmain, r1)
	}
	for i := range others {
		if !ro.equal(others[i]) {
			return fmt.Errorf("%s depth %d at %s: searched in parallel it gives %v, alone %v", c.Other.Config, c.Other.Depth, c.Other.FEN, others[i], ro)
		}
	}
	// the boards the searches were forked from are untouched
	if bridgeFEN(ba) != g.Cur().FEN() {
		return fmt.Errorf("%s: the board searches were forked from changed to %s", where, bridgeFEN(ba))
	}
	labels := []string{"cfg:" + c.Main.Config}
	nt := c.Main.Depth >= 2 && len(c.Main.Moves) > 0
	if g.RepCount() >= 2 {
		labels = append(labels, "repetition-candidate-root")
	}
	if c.Others > 0 {
		labels = append(labels, "parallel")
	}
	stats.Case("C18/deterministic", stats.FP(c.Main, c.Other, c.SeedA, c.SeedB), nt, labels...)
	return nil
})

func bridgeFEN(b *board.Board) string {
	return fenOf(b)
}

func TestC18_deterministic(t *testing.T) {
	runRapid(t, "C18/deterministic", 4000, func(t *rapid.T) detCase {
		c := detCase{Main: genSearchCase(t, abConfigs), Other: genSearchCase(t, abConfigs)}
		for _, sc := range []*searchCase{&c.Main, &c.Other} {
			cfg, _ := findConfig(sc.Config)
			if g, err := (gen.GameCase{FEN: sc.FEN, Moves: sc.Moves}).Build(); err == nil {
				sc.Depth = rapid.IntRange(1, estimateDepth(g, cfg, 5, 60_000)).Draw(t, "d")
			}
		}
		if rapid.Bool().Draw(t, "sameconfig") {
			// the other root keeps its position; its depth is re-estimated for the new configuration, and a
			// capture search is not put on a busy board (its tree is unbounded for practical purposes)
			ncfg, _ := findConfig(c.Main.Config)
			if og, err := (gen.GameCase{FEN: c.Other.FEN, Moves: c.Other.Moves}).Build(); err == nil {
				pieces := 0
				for _, pc := range og.Cur().Pos.Sq {
					if pc != 0 {
						pieces++
					}
				}
				if !ncfg.Quiescence || pieces <= 14 {
					c.Other.Config, c.Other.Param = c.Main.Config, c.Main.Param
					c.Other.Depth = min(c.Other.Depth, estimateDepth(og, ncfg, 5, 60_000))
					if ncfg.Heavy && c.Other.Depth > 2 {
						c.Other.Depth = 2
					}
				}
			}
		}
		c.SeedA = rapid.SampledFrom(hashSeeds).Draw(t, "seeda")
		c.SeedB = rapid.Int64().Draw(t, "seedb")
		c.Others = rapid.IntRange(0, 3).Draw(t, "others")
		return c
	}, func(c detCase) error {
		stats.Sample("C18/deterministic", c)
		return checkC18(c)
	})
}

// engineDetCase: engine-level determinism with evaluation noise, and isolation of the
// engine's own game from analysis.
type engineDetCase struct {
	searchCase        // Depth = depth limit
	Noise      uint   `json:"noise"`
	Seed       int64  `json:"seed"`
	Halt       bool   `json:"halt"` // halt the second round instead of letting it finish
	Rounds     int    `json:"rounds"`
}

func analyzeToEnd(e *engine.Engine, depth int) ([]searchOut, error) {
	ctx := context.Background()
	out, err := e.Analyze(ctx, searchctl.Options{DepthLimit: lang.Some(uint(depth))})
	if err != nil {
		return nil, err
	}
	var ret []searchOut
	for pv := range out {
		ret = append(ret, searchOut{pv.Nodes, pv.Score, pvText(pv.Moves)})
	}
	_, _ = e.Halt(ctx) // clears the (finished) search
	return ret, nil
}

var checkC18Engine = def("C18/engine", func(c engineDetCase) error {
	cfg, err := findConfig(c.Config)
	if err != nil {
		return err
	}
	ctx := context.Background()
	mk := func() (*engine.Engine, error) {
		s, _ := cfg.make(c.Param)
		e := engine.New(ctx, "verif", "verif", s, engine.WithOptions(engine.Options{Noise: c.Noise}), engine.WithZobrist(c.Seed))
		if err := e.Reset(ctx, c.FEN); err != nil {
			return nil, err
		}
		for _, mv := range c.Moves {
			if err := e.Move(ctx, mv); err != nil {
				return nil, err
			}
		}
		return e, nil
	}
	e1, err := mk()
	if err != nil {
		return err
	}
	e2, err := mk()
	if err != nil {
		return err
	}
	where := fmt.Sprintf("%s noise %d seed %d depth %d at %s", c.Config, c.Noise, c.Seed, c.Depth, e1.Position())
	for round := 0; round < max(1, c.Rounds); round++ {
		fen1, snap1 := e1.Position(), takeSnap(e1.Board())
		// the two engines have the same seed and the same search history: identical output.
		// A single PV channel slot means a consumer may miss intermediate depths; the last
		// report of a finished analysis is always delivered, so that is what is compared.
		a, err := analyzeToEnd(e1, c.Depth)
		if err != nil {
			return err
		}
		b, err := analyzeToEnd(e2, c.Depth)
		if err != nil {
			return err
		}
		if len(a) == 0 || len(b) == 0 {
			return fmt.Errorf("%s: analysis reported nothing", where)
		}
		if la, lb := a[len(a)-1], b[len(b)-1]; !la.equal(lb) {
			return fmt.Errorf("%s, round %d: two engines with the same seed and history report %v and %v", where, round, la, lb)
		}
		// analysing never alters the engine's own game
		if e1.Position() != fen1 {
			return fmt.Errorf("%s: analysis changed Engine.Position() from %s to %s", where, fen1, e1.Position())
		}
		if d := diffSnap(takeSnap(e1.Board()), snap1, false); d != "" {
			return fmt.Errorf("%s: analysis changed the engine's game: %s", where, d)
		}
	}
	// "no hash table carried over": after the Hash option has been on and is switched off again,
	// a reset engine must search exactly like one that never had a table
	if c.Noise == 0 && c.Rounds == 1 {
		e3, err := mk()
		if err != nil {
			return err
		}
		e3.SetHash(1)
		if err := e3.Reset(ctx, c.FEN); err != nil {
			return err
		}
		for _, mv := range c.Moves {
			if err := e3.Move(ctx, mv); err != nil {
				return err
			}
		}
		if _, err := analyzeToEnd(e3, c.Depth); err != nil {
			return err
		}
		e3.SetHash(0)
		if err := e3.Reset(ctx, c.FEN); err != nil {
			return err
		}
		for _, mv := range c.Moves {
			if err := e3.Move(ctx, mv); err != nil {
				return err
			}
		}
		a, err := analyzeToEnd(e3, c.Depth)
		if err != nil {
			return err
		}
		ref, err := mk()
		if err != nil {
			return err
		}
		b, err := analyzeToEnd(ref, c.Depth)
		if err != nil {
			return err
		}
		if la, lb := a[len(a)-1], b[len(b)-1]; !la.equal(lb) {
			return fmt.Errorf("%s: after Hash was switched on, used and switched off again the engine reports %v, an engine that never had a table %v", where, la, lb)
		}
	}
	// a new game set up while an analysis is still running: what the engine then returns is what
	// a fresh engine with the same seed returns (the halted search winds down on its own copies)
	if c.Noise > 0 && c.Rounds >= 2 {
		e4, err := mk()
		if err != nil {
			return err
		}
		for k := 0; k < 3; k++ {
			if _, err := e4.Analyze(ctx, searchctl.Options{}); err != nil {
				return err
			}
			if err := e4.Reset(ctx, c.FEN); err != nil {
				return err
			}
			for _, mv := range c.Moves {
				if err := e4.Move(ctx, mv); err != nil {
					return err
				}
			}
			a, err := analyzeToEnd(e4, c.Depth)
			if err != nil {
				return err
			}
			fresh, err := mk()
			if err != nil {
				return err
			}
			b, err := analyzeToEnd(fresh, c.Depth)
			if err != nil {
				return err
			}
			if len(a) == 0 || len(b) == 0 || !a[len(a)-1].equal(b[len(b)-1]) {
				return fmt.Errorf("%s: set up again while an analysis was still running, the engine reports %v; a fresh engine with the same seed %v", where, a, b)
			}
		}
	}
	if c.Halt {
		fen1, snap1 := e1.Position(), takeSnap(e1.Board())
		if _, err := e1.Analyze(ctx, searchctl.Options{}); err != nil {
			return err
		}
		if _, err := e1.Halt(ctx); err != nil {
			return fmt.Errorf("%s: Halt: %v", where, err)
		}
		if e1.Position() != fen1 {
			return fmt.Errorf("%s: halted analysis changed Engine.Position() from %s to %s", where, fen1, e1.Position())
		}
		if d := diffSnap(takeSnap(e1.Board()), snap1, false); d != "" {
			return fmt.Errorf("%s: halted analysis changed the engine's game: %s", where, d)
		}
	}
	labels := []string{"cfg:" + c.Config}
	if c.Noise > 0 {
		labels = append(labels, "noise-on")
	}
	if c.Halt {
		labels = append(labels, "halted-analysis")
	}
	stats.Case("C18/engine", stats.FP(c.searchCase, c.Noise, c.Seed, c.Halt, c.Rounds), c.Depth >= 2, labels...)
	return nil
})

func TestC18_engine(t *testing.T) {
	runRapid(t, "C18/engine", 1800, func(t *rapid.T) engineDetCase {
		sc := genSearchCase(t, abConfigs)
		cfg, _ := findConfig(sc.Config)
		if g, err := (gen.GameCase{FEN: sc.FEN, Moves: sc.Moves}).Build(); err == nil {
			sc.Depth = rapid.IntRange(1, estimateDepth(g, cfg, 4, 20_000)).Draw(t, "d")
		}
		return engineDetCase{searchCase: sc, Noise: uint(rapid.SampledFrom([]int{0, 10, 10, 500, 5000}).Draw(t, "noise")),
			Seed: rapid.Int64Range(-5, 5).Draw(t, "seed"), Halt: rapid.Bool().Draw(t, "halt"), Rounds: rapid.IntRange(1, 3).Draw(t, "rounds")}
	}, func(c engineDetCase) error {
		stats.Sample("C18/engine", c)
		return checkC18Engine(c)
	})
}

// inflightCase: the engine's game is changed (Move / TakeBack) while an analysis is in flight.
type inflightCase struct {
	searchCase          // root and configuration; Depth unused (the analysis is unlimited)
	Ops        []string `json:"ops"` // moves or "takeback", each issued while an analysis runs
	DelayUS    int      `json:"delay_us"`
}

var checkC18Inflight = def("C18/inflight", func(c inflightCase) error {
	cfg, err := findConfig(c.Config)
	if err != nil {
		return err
	}
	ctx := context.Background()
	mk := func() (*engine.Engine, error) {
		s, _ := cfg.make(c.Param)
		e := engine.New(ctx, "verif", "verif", s)
		if err := e.Reset(ctx, c.FEN); err != nil {
			return nil, err
		}
		for _, mv := range c.Moves {
			if err := e.Move(ctx, mv); err != nil {
				return nil, err
			}
		}
		return e, nil
	}
	e1, err := mk() // analyses while its game changes
	if err != nil {
		return err
	}
	e2, err := mk() // never analyses
	if err != nil {
		return err
	}
	for i, op := range c.Ops {
		if _, err := e1.Analyze(ctx, searchctl.Options{}); err != nil {
			return fmt.Errorf("op %d: Analyze: %v", i, err)
		}
		if c.DelayUS > 0 {
			time.Sleep(time.Duration(c.DelayUS) * time.Microsecond)
		}
		var err1, err2 error
		if op == "takeback" {
			err1, err2 = e1.TakeBack(ctx), e2.TakeBack(ctx)
		} else {
			err1, err2 = e1.Move(ctx, op), e2.Move(ctx, op)
		}
		if (err1 == nil) != (err2 == nil) {
			return fmt.Errorf("op %d (%s): with an analysis in flight the engine answers %v, without %v", i, op, err1, err2)
		}
		// let the halted search finish unwinding on its fork, then look at the engine's own game
		for k := 0; k < 3; k++ {
			time.Sleep(time.Millisecond)
			if e1.Position() != e2.Position() {
				return fmt.Errorf("op %d (%s): Engine.Position()=%q, without analysis %q", i, op, e1.Position(), e2.Position())
			}
			if d := diffSnap(takeSnap(e1.Board()), takeSnap(e2.Board()), false); d != "" {
				return fmt.Errorf("op %d (%s) issued while an analysis was in flight: the engine's game reports %s (compared with an engine that never analysed)", i, op, d)
			}
		}
	}
	_, _ = e1.Halt(ctx)
	stats.Case("C18/inflight", stats.FP(c.searchCase, fmt.Sprint(c.Ops), c.DelayUS), len(c.Ops) > 0, "cfg:"+c.Config)
	return nil
})

func TestC18_inflight(t *testing.T) {
	runRapid(t, "C18/inflight", 1500, func(t *rapid.T) inflightCase {
		sc := genSearchCase(t, abConfigs)
		c := inflightCase{searchCase: sc, DelayUS: rapid.SampledFrom([]int{0, 0, 50, 500}).Draw(t, "delay")}
		g, err := gen.GameCase{FEN: sc.FEN, Moves: sc.Moves}.Build()
		if err != nil {
			return c
		}
		g = g.Clone()
		pol := gen.DrawPolicy(t)
		for i, n := 0, rapid.IntRange(1, 5).Draw(t, "nops"); i < n; i++ {
			if len(g.Moves) > 0 && rapid.IntRange(0, 3).Draw(t, "tb") == 0 {
				g.Pop()
				c.Ops = append(c.Ops, "takeback")
				continue
			}
			m, ok := gen.PickMove(t, g, pol)
			if !ok {
				break
			}
			g.Push(m)
			c.Ops = append(c.Ops, m.String())
		}
		return c
	}, func(c inflightCase) error {
		stats.Sample("C18/inflight", c)
		return checkC18Inflight(c)
	})
}

var _ = oracle.InitialFEN

// C18/otherengines: what an engine with a hash table returns does not depend on other engines
// of the same process, whatever their table size: searches run on them before or alongside.
type otherEnginesCase struct {
	searchCase        // the engine under observation: root and depth limit
	Hash       uint   `json:"hash_mb"`
	OtherPlies int    `json:"other_plies"` // the other engine's game: the same line minus this many plies
	Alongside  bool   `json:"alongside"`   // the other engine analyses while the observed one does (else before)
}

var checkC18Others = def("C18/otherengines", func(c otherEnginesCase) error {
	cfg, err := findConfig(c.Config)
	if err != nil {
		return err
	}
	ctx := context.Background()
	mk := func(moves []string) (*engine.Engine, error) {
		s, _ := cfg.make(c.Param)
		e := engine.New(ctx, "verif", "verif", s, engine.WithOptions(engine.Options{Hash: c.Hash}))
		if err := e.Reset(ctx, c.FEN); err != nil {
			return nil, err
		}
		for _, mv := range moves {
			if err := e.Move(ctx, mv); err != nil {
				return nil, err
			}
		}
		return e, nil
	}
	solo, err := mk(c.Moves)
	if err != nil {
		return err
	}
	want, err := analyzeToEnd(solo, c.Depth)
	if err != nil {
		return err
	}
	solo = nil
	other, err := mk(c.Moves[:max(0, len(c.Moves)-c.OtherPlies)])
	if err != nil {
		return err
	}
	obs, err := mk(c.Moves)
	if err != nil {
		return err
	}
	if len(other.Board().Position().LegalMoves(other.Board().Turn())) == 0 {
		stats.Case("C18/otherengines", 0, false, "terminal-root")
		return nil
	}
	how := "before"
	if c.Alongside {
		how = "alongside"
		// bounded: an unlimited analysis left running under load grows without limit (every position a
		// search visits stays in the fork's repetition map), which would exhaust the shard's memory
		extra := 2
		if cfg.Quiescence || cfg.Heavy {
			extra = 1
		}
		if _, err := other.Analyze(ctx, searchctl.Options{DepthLimit: lang.Some(uint(c.Depth + extra))}); err != nil {
			return err
		}
	} else if _, err := analyzeToEnd(other, c.Depth+1); err != nil {
		return err
	}
	got, err := analyzeToEnd(obs, c.Depth)
	_, _ = other.Halt(ctx)
	if err != nil {
		return err
	}
	if len(got) == 0 || len(want) == 0 {
		return fmt.Errorf("analysis reported nothing")
	}
	if a, b := got[len(got)-1], want[len(want)-1]; !a.equal(b) {
		return fmt.Errorf("%s, Hash %d MB, depth %d at %s: with another engine of the same kind analysing %s (its game: %d plies earlier) the engine reports %v; alone it reports %v",
			c.Config, c.Hash, c.Depth, obs.Position(), how, c.OtherPlies, a, b)
	}
	stats.Case("C18/otherengines", stats.FP(c.searchCase, c.Hash, c.OtherPlies, c.Alongside), true, "cfg:"+c.Config, fmt.Sprintf("hash:%d", c.Hash), how)
	return nil
})

func TestC18_otherengines(t *testing.T) {
	runRapid(t, "C18/otherengines", 160, func(t *rapid.T) otherEnginesCase {
		sc := genSearchCase(t, abConfigs)
		cfg, _ := findConfig(sc.Config)
		if g, err := (gen.GameCase{FEN: sc.FEN, Moves: sc.Moves}).Build(); err == nil {
			sc.Depth = rapid.IntRange(1, estimateDepth(g, cfg, 4, 10_000)).Draw(t, "d")
		}
		return otherEnginesCase{searchCase: sc, Hash: uint(rapid.SampledFrom([]int{1, 64, 128, 128, 256}).Draw(t, "hash")),
			OtherPlies: rapid.IntRange(0, min(2, len(sc.Moves))).Draw(t, "otherplies"), Alongside: rapid.Bool().Draw(t, "alongside")}
	}, func(c otherEnginesCase) error {
		stats.Sample("C18/otherengines", c)
		return checkC18Others(c)
	})
}
