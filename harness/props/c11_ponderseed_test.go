package props

import (
	"context"
	"fmt"
	"testing"

	"github.com/herohde/morlock/pkg/board"
	"github.com/herohde/morlock/pkg/search"
	"pgregory.net/rapid"
	"verifharness/bridge"
	"verifharness/gen"
	"verifharness/refsearch"
	"verifharness/stats"
)

// C11/ponderseed: a table that was filled by a search restricted to ONE root move (search.Context.Ponder,
// as the console driver's per-move breakdown issues it for every legal move, including moves the
// configured exploration predicate rejects) is then used by an ordinary, DEEPER search of the same root.
// Every entry the restricted search left is either true for its node (interior nodes are searched in
// full) or too shallow to be used for its value (the root's own entry, which holds the restricted value
// at the smaller depth), so the deeper search must return the exhaustive value of the root - in
// particular it must not take a root move into account that its exploration predicate rejects just
// because the table names it. (A second search at the same or a smaller depth is NOT generated: there
// the unchanged tree reuses the restricted root value, see the observation in DESIGN.md section 8.)
type ponderSeedCase struct {
	searchCase        // Depth = depth of the second, ordinary search (>= 2)
	First      int    `json:"first_depth"` // depth of the restricted search, < Depth
	MoveIdx    int    `json:"move_idx"`    // which legal root move the first search is restricted to
	TableBytes uint64 `json:"table_bytes"`
}

var checkC11PonderSeed = def("C11/ponderseed", func(c ponderSeedCase) error {
	cfg, err := findConfig(c.Config)
	if err != nil {
		return err
	}
	b, g, err := buildBoard(zt0, gen.GameCase{FEN: c.FEN, Moves: c.Moves})
	if err != nil {
		return err
	}
	for _, fired := range g.Fired {
		for _, r := range fired {
			_ = r
			stats.Case("C11/ponderseed", 0, false, "discarded-draw-rule-in-play")
			return nil
		}
	}
	legal := g.Cur().Pos.Legal()
	if len(legal) == 0 || c.Depth < 2 {
		stats.Case("C11/ponderseed", 0, false, "discarded-no-moves-or-depth-1")
		return nil
	}
	s, rcfg := cfg.make(c.Param)
	rcfg.Budget = 40_000
	if cfg.Quiescence {
		rcfg.Budget = 10_000
	}
	ref, err := refsearch.Search(rcfg, g.Clone(), b.Fork(), c.Depth)
	if err == refsearch.ErrBudget {
		stats.Case("C11/ponderseed", 0, false, "discarded-over-budget")
		return nil
	}
	if err != nil {
		return err
	}
	if ref.SawRepetitionOrFifty {
		stats.Case("C11/ponderseed", 0, false, "discarded-repetition-or-fifty-in-tree")
		return nil
	}
	om := legal[((c.MoveIdx%len(legal))+len(legal))%len(legal)]
	fb := b.Fork()
	rm, err := pushOracleMove(fb, om)
	if err != nil {
		return err
	}
	_, explored := ref.RootMoves[bridge.KeyOfRepo(rm)]
	ctx := context.Background()
	tt := search.NewTranspositionTable(ctx, c.TableBytes)
	first := min(max(1, c.First), c.Depth-1)
	if _, _, _, err := s.Search(ctx, &search.Context{TT: tt, Ponder: []board.Move{rm}}, b.Fork(), first); err != nil {
		return fmt.Errorf("%s at %s: search restricted to %s at depth %d failed: %v", c.Config, g.Cur().FEN(), bridge.Text(rm), first, err)
	}
	_, score, pv, err := s.Search(ctx, &search.Context{TT: tt}, b.Fork(), c.Depth)
	if err != nil {
		return fmt.Errorf("%s at %s: depth %d search failed: %v", c.Config, g.Cur().FEN(), c.Depth, err)
	}
	where := fmt.Sprintf("%s at %s (history %d plies), table %d bytes, after a depth-%d search restricted to %s (explored by this configuration: %v), depth %d", c.Config, g.Cur().FEN(), len(c.Moves), c.TableBytes, first, bridge.Text(rm), explored, c.Depth)
	got, ok := refsearch.FromScore(score)
	if !ok {
		return fmt.Errorf("%s: invalid score %v", where, score)
	}
	if !sameValue(got, ref.Value) {
		_, plain, _, _ := s.Search(ctx, search.EmptyContext, b.Fork(), c.Depth)
		return fmt.Errorf("%s: with the table the search returns %v; without a table %v; exhaustive value %v", where, got, plain, ref.Value)
	}
	if ref.RootLegal > 0 && len(ref.RootMoves) > 0 {
		if len(pv) == 0 {
			return fmt.Errorf("%s: no principal variation although the root has %d legal moves", where, ref.RootLegal)
		}
		v, ok := ref.RootMoves[bridge.KeyOfRepo(pv[0])]
		if !ok {
			return fmt.Errorf("%s: principal variation starts with %s, which is not a legal explored move", where, bridge.Text(pv[0]))
		}
		if refsearch.Cmp(v, ref.Value) != 0 {
			return fmt.Errorf("%s: principal variation starts with %s worth %v, best is %v", where, bridge.Text(pv[0]), v, ref.Value)
		}
	}
	labels := []string{"cfg:" + c.Config, fmt.Sprintf("table:%d", c.TableBytes)}
	if !explored {
		labels = append(labels, "restricted-to-a-move-the-predicate-rejects")
	}
	stats.Case("C11/ponderseed", stats.FP(c.FEN, fmt.Sprint(c.Moves), c.Config, c.Param, c.Depth, c.First, c.MoveIdx, c.TableBytes), true, labels...)
	return nil
})

func TestC11_ponderseed(t *testing.T) {
	runRapid(t, "C11/ponderseed", 2500, func(t *rapid.T) ponderSeedCase {
		sc := genSearchCase(t, positionDeterminedConfigs())
		sc.Depth = rapid.IntRange(2, max(2, min(sc.Depth, 4))).Draw(t, "depth")
		return ponderSeedCase{searchCase: sc, First: rapid.IntRange(1, sc.Depth-1).Draw(t, "first"), MoveIdx: rapid.IntRange(0, 63).Draw(t, "move"),
			TableBytes: rapid.SampledFrom(tableSizes).Draw(t, "table")}
	}, func(c ponderSeedCase) error {
		stats.Sample("C11/ponderseed", c)
		return checkC11PonderSeed(c)
	})
}
