package props

import (
	"fmt"
	"sync"
	"sort"
	"testing"

	"github.com/herohde/morlock/pkg/board"
	"pgregory.net/rapid"
	"verifharness/bridge"
	"verifharness/gen"
	"verifharness/oracle"
	"verifharness/stats"
)

// compareMoves judges one position: the engine's legal moves against the oracle's, the
// legality flag of every pseudo-legal move, and the metadata of every legal move.
func compareMoves(b *board.Board, o *oracle.Pos) error {
	pos, turn := b.Position(), b.Turn()
	if turn != bridge.Color(o.White) {
		return fmt.Errorf("side to move differs")
	}
	want := map[bridge.Key]oracle.Move{}
	for _, m := range o.Legal() {
		want[bridge.KeyOf(m)] = m
	}
	// (a) LegalMoves: same set, each once
	seen := map[bridge.Key]bool{}
	for _, m := range pos.LegalMoves(turn) {
		k := bridge.KeyOfRepo(m)
		if seen[k] {
			return fmt.Errorf("LegalMoves lists %v twice in %v", bridge.Text(m), o.KeyFEN())
		}
		seen[k] = true
		if _, ok := want[k]; !ok {
			return fmt.Errorf("LegalMoves contains %v (%v), which is not legal in %v", bridge.Text(m), m, o.KeyFEN())
		}
	}
	for k, m := range want {
		if !seen[k] {
			return fmt.Errorf("LegalMoves misses the legal move %v (%v) in %v", m, m.Kind, o.KeyFEN())
		}
	}
	// (b) every pseudo-legal move: listed once, ok-flag and PushMove result = legality
	pseen := map[bridge.Key]bool{}
	for _, m := range pos.PseudoLegalMoves(turn) {
		k := bridge.KeyOfRepo(m)
		if pseen[k] {
			return fmt.Errorf("PseudoLegalMoves lists %v twice in %v", bridge.Text(m), o.KeyFEN())
		}
		pseen[k] = true
		om, legal := want[k]
		if _, ok := pos.Move(m); ok != legal {
			return fmt.Errorf("Position.Move(%v) ok=%v but legality is %v in %v", bridge.Text(m), ok, legal, o.KeyFEN())
		}
		if ok := b.Fork().PushMove(m); ok != legal {
			return fmt.Errorf("Board.PushMove(%v)=%v but legality is %v in %v", bridge.Text(m), ok, legal, o.KeyFEN())
		}
		if !legal {
			continue
		}
		// (c) metadata
		if m.Type != bridge.MoveType(om.Kind) {
			return fmt.Errorf("move %v reported as %v, it is a %v in %v", bridge.Text(m), m.Type, om.Kind, o.KeyFEN())
		}
		if m.Piece != bridge.Piece(om.Piece) {
			return fmt.Errorf("move %v: moving piece reported %v, is %v in %v", bridge.Text(m), m.Piece, bridge.Piece(om.Piece), o.KeyFEN())
		}
		switch om.Kind {
		case oracle.Capture, oracle.CapturePromo:
			if m.Capture != bridge.Piece(om.Captured) {
				return fmt.Errorf("move %v: captured piece reported %v, is %v in %v", bridge.Text(m), m.Capture, bridge.Piece(om.Captured), o.KeyFEN())
			}
		case oracle.EnPassant: // documented as "not set"; Pawn would also describe the move
			if m.Capture != board.NoPiece && m.Capture != board.Pawn {
				return fmt.Errorf("move %v: e.p. capture reported %v", bridge.Text(m), m.Capture)
			}
		default:
			if m.Capture != board.NoPiece {
				return fmt.Errorf("move %v: captured piece %v reported for a non-capture in %v", bridge.Text(m), m.Capture, o.KeyFEN())
			}
		}
		if m.Promotion != bridge.Piece(om.Promo) {
			return fmt.Errorf("move %v: promotion reported %v, is %v", bridge.Text(m), m.Promotion, bridge.Piece(om.Promo))
		}
		if m.IsPromotion() != (om.Promo != 0) || m.IsCastle() != (om.Kind == oracle.CastleK || om.Kind == oracle.CastleQ) ||
			m.IsCaptureOrEnPassant() != (om.Captured != 0) {
			return fmt.Errorf("move %v: kind predicates disagree with what the move does (%v)", bridge.Text(m), om.Kind)
		}
	}
	// IsCheckMate agrees (C06 also covers it; cheap here)
	if got, w := pos.IsCheckMate(turn), len(want) == 0 && o.InCheck(o.White); got != w {
		return fmt.Errorf("IsCheckMate=%v want %v in %v", got, w, o.KeyFEN())
	}
	return nil
}

// checkC01Walk visits every node of a game.
var checkC01Walk = def("C01/walk", func(gc gen.GameCase) error {
	st, err := oracle.ParseFEN(gc.FEN)
	if err != nil {
		return fmt.Errorf("case: %v", err)
	}
	g := oracle.NewGame(st)
	b := bridge.Board(zt0, st)
	for i := 0; ; i++ {
		o := &g.Cur().Pos
		if err := compareMoves(b, o); err != nil {
			return fmt.Errorf("ply %d: %v", i, err)
		}
		labels, special := posLabels(o)
		stats.Eval("C01/walk", 1)
		if special {
			stats.Distinct("C01/walk", stats.FP(o.KeyFEN()), labels...)
		}
		if i >= len(gc.Moves) {
			break
		}
		om, ok := o.FindMove(gc.Moves[i])
		if !ok {
			return fmt.Errorf("case: move %d (%s) not legal", i, gc.Moves[i])
		}
		if _, err := pushOracleMove(b, om); err != nil {
			return fmt.Errorf("ply %d: %v", i, err)
		}
		g.Push(om)
	}
	return nil
})

func TestC01_walk(t *testing.T) {
	runRapid(t, "C01/walk", 24000, func(t *rapid.T) gen.GameCase {
		gc, _ := gen.Game(t, 80)
		return gc
	}, func(gc gen.GameCase) error {
		stats.Sample("C01/walk", gc)
		return checkC01Walk(gc)
	})
}

// checkC01Synth judges a single synthetic position (both as given and with the other side
// to move when that is well-formed).
var checkC01Synth = def("C01/synth", func(c struct{ FEN string }) error {
	st, err := oracle.ParseFEN(c.FEN)
	if err != nil {
		return fmt.Errorf("case: %v", err)
	}
	b := bridge.Board(zt0, st)
	labels, special := posLabels(&st.Pos)
	if n := len(st.Pos.PseudoLegal()); n > 256 {
		labels, special = append(labels, "more-than-256-pseudo-legal-moves", "more-than-218-pseudo-legal-moves"), true
	} else if n > 218 {
		labels, special = append(labels, "more-than-218-pseudo-legal-moves"), true
	} else if n > 150 {
		labels = append(labels, "more-than-150-pseudo-legal-moves")
	}
	stats.Case("C01/synth", stats.FP(st.Pos.KeyFEN()), special, labels...)
	return compareMoves(b, &st.Pos)
})

func TestC01_synth(t *testing.T) {
	runRapid(t, "C01/synth", 60000, func(t *rapid.T) struct{ FEN string } {
		if rapid.IntRange(0, 5).Draw(t, "epcheck") == 0 {
			return struct{ FEN string }{gen.EPCheck(t).FEN()}
		}
		if rapid.IntRange(0, 24).Draw(t, "manymoves") == 0 {
			return struct{ FEN string }{gen.ManyMoves(t).FEN()}
		}
		return struct{ FEN string }{gen.Synth(t).FEN()}
	}, func(c struct{ FEN string }) error {
		stats.Sample("C01/synth", c.FEN)
		return checkC01Synth(c)
	})
}

func repoPerft(pos *board.Position, turn board.Color, depth int) int64 {
	if depth == 0 {
		return 1
	}
	var n int64
	for _, m := range pos.PseudoLegalMoves(turn) {
		if next, ok := pos.Move(m); ok {
			n += repoPerft(next, turn.Opponent(), depth-1)
		}
	}
	return n
}

type perftCase struct {
	FEN   string
	Depth int
}

// checkC01Perft: differential perft with divide, so a mismatch names the first move.
var checkC01Perft = def("C01/perft", func(c perftCase) error {
	st, err := oracle.ParseFEN(c.FEN)
	if err != nil {
		return fmt.Errorf("case: %v", err)
	}
	pos, err := bridge.Position(&st.Pos)
	if err != nil {
		return err
	}
	turn := bridge.Color(st.Pos.White)
	got := map[string]int64{}
	for _, m := range pos.PseudoLegalMoves(turn) {
		if next, ok := pos.Move(m); ok {
			got[bridge.Text(m)] += repoPerft(next, turn.Opponent(), c.Depth-1)
		}
	}
	want := map[string]int64{}
	for _, m := range st.Pos.Legal() {
		n := st.Pos.Make(m)
		want[m.String()] = n.Perft(c.Depth - 1)
	}
	var keys []string
	for k := range want {
		keys = append(keys, k)
	}
	for k := range got {
		if _, ok := want[k]; !ok {
			keys = append(keys, k)
		}
	}
	sort.Strings(keys)
	var total int64
	for _, k := range keys {
		total += want[k]
		if got[k] != want[k] {
			return fmt.Errorf("perft(%d) after %s: engine %d, oracle %d in %s", c.Depth, k, got[k], want[k], c.FEN)
		}
	}
	_, special := posLabels(&st.Pos)
	stats.Case("C01/perft", stats.FP(st.Pos.KeyFEN(), c.Depth), special || total > 100, fmt.Sprintf("depth-%d", c.Depth))
	stats.Note("C01/perft", "nodes", total)
	return nil
})

func TestC01_perft(t *testing.T) {
	maxDepth := 2
	if thorough() {
		maxDepth = 3
	}
	runRapid(t, "C01/perft", 5000, func(t *rapid.T) perftCase {
		var st oracle.State
		if rapid.Bool().Draw(t, "fromgame") {
			_, g := gen.Game(t, 40)
			st = *g.Cur()
		} else {
			st = gen.Synth(t)
		}
		return perftCase{FEN: st.FEN(), Depth: rapid.IntRange(2, maxDepth).Draw(t, "depth")}
	}, func(c perftCase) error {
		stats.Sample("C01/perft", c)
		return checkC01Perft(c)
	})
}

// C01/parallel: move generation is a pure function of the position; searches of several
// engines, and a halted search next to its successor, generate moves at the same time.
var checkC01Parallel = def("C01/parallel", func(fens []string) error {
	errs := make([]error, len(fens))
	var wg sync.WaitGroup
	for i, f := range fens {
		i, f := i, f
		wg.Add(1)
		go func() {
			defer wg.Done()
			defer func() {
				if r := recover(); r != nil {
					errs[i] = fmt.Errorf("panic: %v", r)
				}
			}()
			st, err := oracle.ParseFEN(f)
			if err != nil {
				errs[i] = err
				return
			}
			p, err := bridge.Position(&st.Pos)
			if err != nil {
				errs[i] = err
				return
			}
			turn := bridge.Color(st.Pos.White)
			legal, pseudo := map[bridge.Key]bool{}, map[bridge.Key]bool{}
			for _, m := range st.Pos.Legal() {
				legal[bridge.KeyOf(m)] = true
			}
			for _, m := range st.Pos.PseudoLegal() {
				pseudo[bridge.KeyOf(m)] = true
			}
			for rep := 0; rep < 12; rep++ {
				got := p.LegalMoves(turn)
				if len(got) != len(legal) {
					errs[i] = fmt.Errorf("LegalMoves lists %d moves, %d are legal", len(got), len(legal))
					return
				}
				for _, m := range got {
					if !legal[bridge.KeyOfRepo(m)] {
						errs[i] = fmt.Errorf("LegalMoves lists %s, which is not legal", bridge.Text(m))
						return
					}
				}
				for _, m := range p.PseudoLegalMoves(turn) {
					if !pseudo[bridge.KeyOfRepo(m)] {
						errs[i] = fmt.Errorf("PseudoLegalMoves lists %s, which no piece of the side to move can play", bridge.Text(m))
						return
					}
				}
			}
		}()
	}
	wg.Wait()
	for i, err := range errs {
		if err != nil {
			return fmt.Errorf("generated concurrently with %d other positions: %v (position %s)", len(fens)-1, err, fens[i])
		}
	}
	stats.Case("C01/parallel", stats.FP(fmt.Sprint(fens)), len(fens) > 1, fmt.Sprintf("goroutines:%d", len(fens)))
	return nil
})

func TestC01_parallel(t *testing.T) {
	runRapid(t, "C01/parallel", 1600, func(t *rapid.T) []string {
		var fens []string
		for i, n := 0, rapid.IntRange(2, 8).Draw(t, "goroutines"); i < n; i++ {
			if rapid.Bool().Draw(t, "synth") {
				fens = append(fens, gen.Synth(t).FEN())
			} else {
				_, g := gen.Game(t, 40)
				fens = append(fens, g.Cur().FEN())
			}
		}
		return fens
	}, func(fens []string) error {
		stats.Sample("C01/parallel", fens)
		return checkC01Parallel(fens)
	})
}
