package props

import (
	"fmt"
	"math"
	"testing"

	"github.com/herohde/morlock/pkg/eval"
	"pgregory.net/rapid"
	"verifharness/refsearch"
	"verifharness/stats"
)

// scoreJ is a serialisable eval.Score (float by bit pattern so that infinities survive JSON).
type scoreJ struct {
	T    int8   `json:"type"` // 1 heuristic, 2 mate, 3 won, 4 lost
	M    int8   `json:"mate"`
	Bits uint32 `json:"pawns_bits"`
	Text string `json:"text,omitempty"`
}

func (s scoreJ) score() eval.Score {
	return eval.Score{Type: eval.ScoreType(s.T), Mate: s.M, Pawns: eval.Pawns(math.Float32frombits(s.Bits))}
}

func toScoreJ(s eval.Score) scoreJ {
	return scoreJ{T: int8(s.Type), M: s.Mate, Bits: math.Float32bits(float32(s.Pawns)), Text: s.String()}
}

type c09Case struct {
	A, B, C scoreJ
	// Derive: operations applied to A before the laws are judged ('i' increment, 'd' decrement,
	// 'n' negate), e.g. "di": the score a mate-in-1 bound turns into one ply down and up again.
	Derive string `json:"derive,omitempty"`
}

func discreteScores() []eval.Score {
	ret := []eval.Score{eval.InfScore, eval.NegInfScore}
	for k := 1; k <= 127; k++ {
		ret = append(ret, eval.MateInXScore(int8(k)), eval.MateInXScore(int8(-k)))
	}
	// being mated in 128 plies is constructible too (it has no counterpart on the mating side)
	ret = append(ret, eval.MateInXScore(-128))
	return ret
}

func isMate(s eval.Score) bool { return s.Type == eval.MateInX }

// checkC09 judges every law of the property on the triple (A, B, C).
var checkC09 = def("C09/order", func(c c09Case) error {
	a, b, cc := c.A.score(), c.B.score(), c.C.score()
	// (0) a heuristic value is a heuristic value, whatever the number: the constructor keeps it
	for _, x := range []scoreJ{c.A, c.B, c.C} {
		if eval.ScoreType(x.T) == eval.Heuristic {
			f := eval.Pawns(math.Float32frombits(x.Bits))
			if got := eval.HeuristicScore(f); got.Type != eval.Heuristic || math.Float32bits(float32(got.Pawns)) != x.Bits {
				return fmt.Errorf("HeuristicScore(%v) = %v (type %d): not the heuristic value it was given", f, got, got.Type)
			}
		}
	}
	// derived scores: what the searches actually handle are results of these operations, not
	// only freshly constructed values
	for _, d := range c.Derive {
		switch d {
		case 'i':
			if mateOK(a) {
				a = eval.IncrementMateDistance(a)
			}
		case 'd':
			a = eval.DecrementMateDistance(a)
		case 'n':
			if negOK(a) {
				a = a.Negate()
			}
		}
	}
	va, oka := refsearch.FromScore(a)
	vb, okb := refsearch.FromScore(b)
	vc, okc := refsearch.FromScore(cc)
	if !oka || !okb || !okc {
		return nil // not a constructible score of the property's domain
	}
	// (1) Less is the specification order.
	for _, p := range [][2]eval.Score{{a, b}, {b, a}, {a, cc}, {cc, a}, {b, cc}, {cc, b}, {a, a}} {
		x, _ := refsearch.FromScore(p[0])
		y, _ := refsearch.FromScore(p[1])
		if got, want := p[0].Less(p[1]), refsearch.Less(x, y); got != want {
			return fmt.Errorf("(%v).Less(%v) = %v, specification order says %v", p[0], p[1], got, want)
		}
	}
	// (2) transitivity and totality on the triple (follow from (1) when it holds for all
	// pairs, checked directly anyway).
	if a.Less(b) && b.Less(cc) && !a.Less(cc) {
		return fmt.Errorf("not transitive: %v < %v < %v but not %v < %v", a, b, cc, a, cc)
	}
	if refsearch.Cmp(va, vb) != 0 && !a.Less(b) && !b.Less(a) {
		return fmt.Errorf("not total: neither %v < %v nor %v < %v", a, b, b, a)
	}
	_ = vc
	// (3) negation is an involution that reverses the order (being mated in 128 has no
	// representable negation: the law is not asked of it).
	if !negOK(a) || !negOK(b) {
		goto increment
	}
	if nn := a.Negate().Negate(); nn != a && !(nn.Type == a.Type && nn.Mate == a.Mate && nn.Pawns == a.Pawns) {
		return fmt.Errorf("Negate(Negate(%v)) = %v", a, nn)
	}
	if got, want := b.Negate().Less(a.Negate()), refsearch.Less(va, vb); got != want {
		return fmt.Errorf("order reversal: %v < %v is %v but (%v).Less(%v) = %v", a, b, want, b.Negate(), a.Negate(), got)
	}
	if nv, ok := refsearch.FromScore(a.Negate()); !ok || refsearch.Cmp(nv, refsearch.Neg(va)) != 0 {
		return fmt.Errorf("Negate(%v) = %v, specification says %v", a, a.Negate(), refsearch.Neg(va))
	}
increment:
	// (4) adding a ply of mate distance keeps the relative order (distance must stay
	// representable: -127 <= k <= 126).
	if mateOK(a) && mateOK(b) {
		ia, ib := eval.IncrementMateDistance(a), eval.IncrementMateDistance(b)
		if got, want := ia.Less(ib), refsearch.Less(va, vb); got != want {
			return fmt.Errorf("increment changes order: %v < %v is %v, but (%v).Less(%v) = %v", a, b, want, ia, ib, got)
		}
		if got, want := ib.Less(ia), refsearch.Less(vb, va); got != want {
			return fmt.Errorf("increment changes order: %v < %v is %v, but (%v).Less(%v) = %v", b, a, want, ib, ia, got)
		}
		// and it means what it says: one more ply, same sign.
		wantInc := refsearch.Neg(refsearch.Up(va))
		if iv, ok := refsearch.FromScore(ia); !ok || refsearch.Cmp(iv, wantInc) != 0 {
			return fmt.Errorf("IncrementMateDistance(%v) = %v, want %v", a, ia, wantInc)
		}
	}
	// (5) Max / Min agree with the order.
	mx, mn := eval.Max(a, b), eval.Min(a, b)
	vmx, _ := refsearch.FromScore(mx)
	vmn, _ := refsearch.FromScore(mn)
	if (mx != a && mx != b) || refsearch.Less(vmx, va) || refsearch.Less(vmx, vb) {
		return fmt.Errorf("Max(%v, %v) = %v", a, b, mx)
	}
	if (mn != a && mn != b) || refsearch.Less(va, vmn) || refsearch.Less(vb, vmn) {
		return fmt.Errorf("Min(%v, %v) = %v", a, b, mn)
	}
	return nil
})

func mateOK(s eval.Score) bool {
	return !isMate(s) || (s.Mate <= 126 && s.Mate >= -127)
}

func negOK(s eval.Score) bool {
	return !isMate(s) || s.Mate != -128
}

// TestC09_discrete enumerates all pairs of discrete scores (won, lost, mate in +-1..127) and
// all triples over a reduced set.
func TestC09_discrete(t *testing.T) {
	const key = "C09/order"
	ds := discreteScores()
	idx, n := shard()
	k := 0
	for i, a := range ds {
		for j, b := range ds {
			k++
			if k%n != idx {
				continue
			}
			// third element: sweep deterministically through the set
			c := ds[(i*7+j*13)%len(ds)]
			cs := c09Case{A: toScoreJ(a), B: toScoreJ(b), C: toScoreJ(c)}
			if err := checkC09(cs); err != nil {
				failCase(t, key, cs, err)
			}
			nt := isMate(a) || isMate(b)
			stats.Case("C09/discrete", stats.FP(a, b), nt, "pair")
			if (i*len(ds)+j)%9973 == 0 {
				stats.Sample("C09/discrete", fmt.Sprintf("%v vs %v vs %v", a, b, c))
			}
		}
	}
	// all triples over a reduced set: won, lost, +-1..+-6, +-126, +-127
	var small []eval.Score
	small = append(small, eval.InfScore, eval.NegInfScore, eval.ZeroScore, eval.HeuristicScore(-3), eval.HeuristicScore(2.5))
	for _, d := range []int8{1, 2, 3, 4, 5, 6, 126, 127} {
		small = append(small, eval.MateInXScore(d), eval.MateInXScore(-d))
	}
	small = append(small, eval.MateInXScore(-128))
	k = 0
	for _, a := range small {
		for _, b := range small {
			for _, c := range small {
				k++
				if k%n != idx {
					continue
				}
				cs := c09Case{A: toScoreJ(a), B: toScoreJ(b), C: toScoreJ(c)}
				if err := checkC09(cs); err != nil {
					failCase(t, key, cs, err)
				}
				stats.Case("C09/discrete", stats.FP(a, b, c), true, "triple")
			}
		}
	}
	stats.SetExhaustive("C09/discrete")
}

func genScore(t *rapid.T, label string) eval.Score {
	switch rapid.IntRange(0, 9).Draw(t, label+"_kind") {
	case 0:
		return eval.InfScore
	case 1:
		return eval.NegInfScore
	case 2, 3, 4:
		k := rapid.IntRange(1, 128).Draw(t, label+"_k")
		if rapid.Bool().Draw(t, label+"_neg") || k == 128 {
			k = -k
		}
		return eval.MateInXScore(int8(k))
	default:
		var f float32
		switch rapid.IntRange(0, 5).Draw(t, label+"_fkind") {
		case 0:
			f = float32(rapid.IntRange(-12, 12).Draw(t, label+"_q")) / 4
		case 1:
			f = float32(rapid.SampledFrom([]float64{0, math.Copysign(0, -1), math.SmallestNonzeroFloat32, -math.SmallestNonzeroFloat32,
				math.MaxFloat32, -math.MaxFloat32, math.Inf(1), math.Inf(-1), 103, -103, 1e-3, -1e-3}).Draw(t, label+"_special"))
		default:
			f = rapid.Float32().Draw(t, label+"_f")
		}
		if f != f {
			f = 0 // NaN is outside the domain (evaluations are finite numbers)
		}
		// (the value itself, not what the constructor makes of it: law (0) compares the two)
		return eval.Score{Type: eval.Heuristic, Pawns: eval.Pawns(f)}
	}
}

// TestC09_mixed draws triples mixing heuristic values over float32 with discrete scores.
func TestC09_mixed(t *testing.T) {
	runRapid(t, "C09/order", 400000, func(t *rapid.T) c09Case {
		c := c09Case{A: toScoreJ(genScore(t, "a")), B: toScoreJ(genScore(t, "b")), C: toScoreJ(genScore(t, "c"))}
		if rapid.IntRange(0, 2).Draw(t, "derived") == 0 {
			c.Derive = rapid.StringOfN(rapid.RuneFrom([]rune("idn")), 1, 4, -1).Draw(t, "derive")
		}
		return c
	}, func(c c09Case) error {
		a, b := c.A.score(), c.B.score()
		nt := (isMate(a) || isMate(b)) && (a.Type == eval.Heuristic || b.Type == eval.Heuristic || c.C.score().Type == eval.Heuristic)
		lab := "no-heuristic"
		if nt {
			lab = "mate-with-heuristic"
		}
		stats.Case("C09/mixed", stats.FP(c.A.T, c.A.M, c.A.Bits, c.B.T, c.B.M, c.B.Bits, c.C.T, c.C.M, c.C.Bits), nt, lab)
		stats.Sample("C09/mixed", fmt.Sprintf("%v vs %v vs %v", a, b, c.C.score()))
		return checkC09(c)
	})
}
