package props

import (
	"context"
	"fmt"
	"sync/atomic"
	"testing"
	"time"

	"github.com/herohde/morlock/pkg/eval"
	"github.com/herohde/morlock/pkg/search"
	"github.com/herohde/morlock/pkg/search/searchctl"
	"github.com/seekerror/stdlib/pkg/lang"
	"pgregory.net/rapid"
	"verifharness/stats"
)

// C15/lag: the two ends of the report stream that C15/iterative never stresses, because it reads
// every report before it lets the next iteration through and uses a table whose Used() is instant.
//
//   (a) a reader that falls behind: reports 1..Prompt are read as they arrive, then nothing is read
//       until the analysis has had time to end by itself at its depth limit (or forced mate). The
//       stream may then have dropped reports (it keeps the newest one only), but what is read must
//       still be in increasing depth order, each report must be what a direct search of that depth
//       returns, and the LAST report before the channel closes must be the depth the analysis ends
//       at: that is how a consumer sees "it ends exactly at the requested depth limit".
//   (b) a halt requested while depth 1 is pending, with a table whose Used() is slow (a big table's
//       is a scan): Halt must not return until depth 1 has been recorded, however long the
//       bookkeeping between the end of the root search and the report takes.
//
// Timing only decides how much is left unread in (a) and how wide the window is in (b); the
// invariants hold on a correct tree for every timing.
type lagCase struct {
	searchCase     // Depth = depth limit (>= 1)
	Prompt     int `json:"prompt"`       // reports read promptly before the reader stops reading
	HaltEarly  bool `json:"halt_early"`  // variant (b)
	UsedMS     int `json:"used_ms"`      // how long the table's first Used() call takes
}

type slowUsedTT struct {
	search.TranspositionTable
	delay time.Duration
	calls atomic.Int32
}

func (s *slowUsedTT) Used() float64 {
	if s.calls.Add(1) == 1 && s.delay > 0 {
		time.Sleep(s.delay)
	}
	return s.TranspositionTable.Used()
}

var checkC15Lag = def("C15/lag", func(c lagCase) error {
	b, g, cfg, err := setupSearch(c.searchCase)
	if err == errDiscard {
		stats.Case("C15/lag", 0, false, "discarded-sticky-draw-root")
		return nil
	}
	if err != nil {
		return err
	}
	ctx := context.Background()
	limit := max(1, c.Depth)
	direct := map[int]directResult{}
	end := limit
	var slowest time.Duration
	for k := 1; k <= limit; k++ {
		s, _ := cfg.make(c.Param)
		start := time.Now()
		_, score, pv, err := s.Search(ctx, search.EmptyContext, b.Fork(), k)
		if err != nil {
			return fmt.Errorf("direct search depth %d: %v", k, err)
		}
		slowest = max(slowest, time.Since(start))
		direct[k] = directResult{score, pv}
		if md, ok := score.MateDistance(); ok && int(md) <= k {
			end = k
			break
		}
	}
	where := fmt.Sprintf("%s at %s (history %d plies), limit %d", c.Config, g.Cur().FEN(), len(c.Moves), limit)
	inner, _ := cfg.make(c.Param)
	gs := newGatedSearch(inner, 1)
	tt := &slowUsedTT{TranspositionTable: search.NoTranspositionTable{}, delay: time.Duration(c.UsedMS) * time.Millisecond}
	it := &searchctl.Iterative{Root: gs}
	h, out := it.Launch(ctx, b.Fork(), tt, eval.Random{}, searchctl.Options{DepthLimit: lang.Some(uint(limit))})
	// whatever happens, nothing stays parked at the gate
	defer func() {
		h.Halt()
		for {
			select {
			case ev := <-gs.entering:
				close(ev.release)
			case _, ok := <-out:
				if !ok {
					return
				}
			case <-time.After(liveness):
				return
			}
		}
	}()
	judge := func(pv search.PV, what string) error {
		d, ok := direct[pv.Depth]
		if !ok {
			return fmt.Errorf("%s: %s reports depth %d, but the analysis must end at depth %d", where, what, pv.Depth, end)
		}
		if pv.Score != d.score {
			return fmt.Errorf("%s: %s for depth %d has score %v, a direct depth-%d search returns %v", where, what, pv.Depth, pv.Score, pv.Depth, d.score)
		}
		if !samePV(pv.Moves, d.pv) {
			return fmt.Errorf("%s: %s for depth %d has variation %v, a direct search returns %v", where, what, pv.Depth, pvText(pv.Moves), pvText(d.pv))
		}
		return nil
	}

	if c.HaltEarly {
		var first gateEvent
		select {
		case first = <-gs.entering:
		case <-time.After(liveness):
			return fmt.Errorf("%s: the analysis never started its first iteration", where)
		}
		res := make(chan search.PV, 1)
		go func() { res <- h.Halt() }()
		time.Sleep(time.Millisecond) // let Halt park
		close(first.release)
		select {
		case pv := <-res:
			if pv.Depth < 1 {
				return fmt.Errorf("%s: Halt requested during depth 1 returned before depth 1 was recorded (%v) - the table's Used() took %d ms", where, pv, c.UsedMS)
			}
			if err := judge(pv, "Halt()"); err != nil {
				return err
			}
			if len(pv.Moves) == 0 && g.Cur().Pos.HasLegal() && !g.DrawNow() {
				return fmt.Errorf("%s: Halt requested during depth 1 returned no moves although the root has legal moves", where)
			}
		case <-time.After(liveness):
			return fmt.Errorf("%s: Halt requested during depth 1 never returned", where)
		}
		stats.Case("C15/lag", stats.FP(c.FEN, fmt.Sprint(c.Moves), c.Config, c.Param, c.Depth, c.UsedMS, true), c.UsedMS > 0, "halt-during-depth-1-slow-used", "cfg:"+c.Config)
		return nil
	}

	// (a) lagging reader
	maxSeen, nread := 0, 0
	recv := func(pv search.PV) error {
		if pv.Depth <= maxSeen {
			return fmt.Errorf("%s: depth %d reported after depth %d", where, pv.Depth, maxSeen)
		}
		maxSeen = pv.Depth
		nread++
		return judge(pv, "the analysis")
	}
	prompt := min(c.Prompt, end-1)
	released := 0
	for released < end {
		select {
		case ev := <-gs.entering:
			if ev.depth > end {
				close(ev.release)
				return fmt.Errorf("%s: iteration %d starts although the analysis should have ended by itself at depth %d", where, ev.depth, end)
			}
			if ev.depth-1 >= 1 && ev.depth-1 <= prompt {
				select {
				case pv, ok := <-out:
					if !ok {
						close(ev.release)
						return fmt.Errorf("%s: the stream closed while iteration %d was starting", where, ev.depth)
					}
					if err := recv(pv); err != nil {
						close(ev.release)
						return err
					}
				case <-time.After(liveness):
					close(ev.release)
					return fmt.Errorf("%s: iteration %d starts but depth %d was never reported", where, ev.depth, ev.depth-1)
				}
			}
			close(ev.release)
			released = ev.depth
		case <-time.After(liveness):
			return fmt.Errorf("%s: the analysis did not start iteration %d", where, released+1)
		}
	}
	// stop reading while the remaining iterations run and the analysis ends
	time.Sleep(3*slowest + time.Duration(c.UsedMS)*time.Millisecond + 3*time.Millisecond)
	closed := false
	for !closed {
		select {
		case ev := <-gs.entering:
			close(ev.release)
			return fmt.Errorf("%s: iteration %d starts although the analysis should have ended by itself at depth %d", where, ev.depth, end)
		case pv, ok := <-out:
			if !ok {
				closed = true
				break
			}
			if err := recv(pv); err != nil {
				return err
			}
		case <-time.After(liveness):
			return fmt.Errorf("%s: the analysis did not end within %v of its last iteration", where, liveness)
		}
	}
	if maxSeen != end {
		return fmt.Errorf("%s: the last report a reader that fell behind after %d reports gets before the stream closes is depth %d; the analysis ends at depth %d and that report is lost", where, prompt, maxSeen, end)
	}
	last := h.Halt()
	if last.Depth != end {
		return fmt.Errorf("%s: Halt() after the analysis ended by itself returns depth %d, the analysis ended at depth %d", where, last.Depth, end)
	}
	if err := judge(last, "Halt() after the end"); err != nil {
		return err
	}
	stats.Case("C15/lag", stats.FP(c.FEN, fmt.Sprint(c.Moves), c.Config, c.Param, c.Depth, c.Prompt, false), end >= 2 && prompt < end-1,
		"lagging-reader", fmt.Sprintf("reports-read:%d-of-%d", min(nread, 4), min(end, 4)), "cfg:"+c.Config)
	return nil
})

func TestC15_lag(t *testing.T) {
	runRapid(t, "C15/lag", 1500, func(t *rapid.T) lagCase {
		sc := genSearchCase(t, abConfigs)
		c := lagCase{searchCase: sc}
		c.Depth = rapid.IntRange(1, max(1, min(sc.Depth, 4))).Draw(t, "limit")
		c.HaltEarly = rapid.IntRange(0, 2).Draw(t, "haltearly") == 0
		c.Prompt = rapid.IntRange(0, c.Depth).Draw(t, "prompt")
		c.UsedMS = rapid.SampledFrom([]int{0, 0, 1, 3, 8}).Draw(t, "usedms")
		return c
	}, func(c lagCase) error {
		stats.Sample("C15/lag", c)
		return checkC15Lag(c)
	})
}
