package props

import (
	"context"
	"fmt"
	"math"
	"testing"

	"github.com/herohde/morlock/pkg/board"
	"github.com/herohde/morlock/pkg/eval"
	"github.com/herohde/morlock/pkg/search"
	"pgregory.net/rapid"
	"verifharness/oracle"
	"verifharness/refsearch"
	"verifharness/stats"
)

// boundSpec describes a window bound relative to the true value v (so that the generator
// does not need to know v; the check computes it and resolves the bound).
type boundSpec struct {
	Kind string  `json:"kind"` // lost | won | v | below | above | mate | mated | heur | vshift | vplus
	N    int     `json:"n,omitempty"`
	X    float32 `json:"x,omitempty"`
}

func resolveBound(s boundSpec, v refsearch.Value) refsearch.Value {
	h := func(x float32) refsearch.Value { return refsearch.Value{Class: refsearch.Heuristic, H: x} }
	switch s.Kind {
	case "lost":
		return refsearch.Value{Class: refsearch.Lost}
	case "won":
		return refsearch.Value{Class: refsearch.Won}
	case "mate":
		return refsearch.Value{Class: refsearch.MateIn, Dist: max(1, s.N)}
	case "mated":
		return refsearch.Value{Class: refsearch.MatedIn, Dist: max(1, s.N)}
	case "heur":
		return h(s.X)
	case "below", "above": // the immediate neighbour of v in the order
		up := s.Kind == "above"
		switch v.Class {
		case refsearch.Heuristic:
			if up {
				return h(math.Nextafter32(v.H, float32(math.Inf(1))))
			}
			return h(math.Nextafter32(v.H, float32(math.Inf(-1))))
		case refsearch.MateIn: // sooner is better
			if up {
				if v.Dist == 1 {
					return refsearch.Value{Class: refsearch.Won}
				}
				return refsearch.Value{Class: refsearch.MateIn, Dist: v.Dist - 1}
			}
			return refsearch.Value{Class: refsearch.MateIn, Dist: v.Dist + 1}
		case refsearch.MatedIn: // later is better
			if up {
				return refsearch.Value{Class: refsearch.MatedIn, Dist: v.Dist + 1}
			}
			if v.Dist == 1 {
				return refsearch.Value{Class: refsearch.Lost}
			}
			return refsearch.Value{Class: refsearch.MatedIn, Dist: v.Dist - 1}
		case refsearch.Lost:
			if up {
				return refsearch.Value{Class: refsearch.MatedIn, Dist: 1}
			}
		case refsearch.Won:
			if !up {
				return refsearch.Value{Class: refsearch.MateIn, Dist: 1}
			}
		}
		return v
	case "vshift": // v with N plies added to / removed from a mate distance
		if v.Class == refsearch.MateIn || v.Class == refsearch.MatedIn {
			d := v.Dist + s.N
			if d < 1 {
				d = 1
			}
			if d > 100 {
				d = 100
			}
			return refsearch.Value{Class: v.Class, Dist: d}
		}
		return h(v.H + float32(s.N)/4)
	case "vplus":
		if v.Class == refsearch.Heuristic {
			return h(v.H + s.X)
		}
		return h(s.X)
	}
	return v
}

type windowCase struct {
	searchCase
	A boundSpec `json:"a"`
	B boundSpec `json:"b"`
	// Quiet: call Quiescence.QuietSearch at the root instead of AlphaBeta.Search.
	Quiet bool `json:"quiet"`
	// Unset: "a" or "b": that bound is left unset in the search context (a half-open window:
	// an unset bound is no bound).
	Unset string `json:"unset,omitempty"`
}

// judgeWindow is the property's relation between the true value v, the window and r.
func judgeWindow(v, a, b, r refsearch.Value) error {
	switch {
	case refsearch.Less(a, v) && refsearch.Less(v, b):
		if !sameValue(r, v) {
			return fmt.Errorf("true value %v lies inside the window (%v, %v) but the search returned %v", v, a, b, r)
		}
	case !refsearch.Less(a, v): // v <= a
		if refsearch.Less(r, v) || refsearch.Less(a, r) {
			return fmt.Errorf("true value %v <= a: window (%v, %v), returned %v, expected v <= r <= a", v, a, b, r)
		}
	default: // v >= b
		if refsearch.Less(r, b) || refsearch.Less(v, r) {
			return fmt.Errorf("true value %v >= b: window (%v, %v), returned %v, expected b <= r <= v", v, a, b, r)
		}
	}
	return nil
}

var checkC13 = def("C13/window", func(c windowCase) error {
	b, g, cfg, err := setupSearch(c.searchCase)
	if err == errDiscard {
		stats.Case("C13/window", 0, false, "discarded-sticky-draw-root")
		return nil
	}
	if err != nil {
		return err
	}
	s, rcfg := cfg.make(c.Param)
	if c.Quiet && !cfg.Quiescence {
		return fmt.Errorf("case: configuration %s has no quiescence search", c.Config)
	}
	rb := b.Fork()
	prepareRef(&rcfg, rb)
	rcfg.Budget = 60_000
	if cfg.Quiescence {
		rcfg.Budget = 25_000
	}
	var ref *refsearch.Result
	if c.Quiet {
		if g.DrawNow() || b.Result().Outcome == board.Draw {
			// called directly on a board that carries a draw flag (now, or from an earlier
			// position of the game) the quiescence search answers 0; inside a search such a
			// node is never handed to it. The property leaves that value open: not judged.
			stats.Case("C13/window", 0, false, "discarded-drawn-root")
			return nil
		}
		ref, err = refsearch.Quiesce(rcfg, g.Clone(), rb)
	} else {
		ref, err = refsearch.Search(rcfg, g.Clone(), rb, c.Depth)
	}
	if err == refsearch.ErrBudget {
		stats.Case("C13/window", 0, false, "discarded-over-budget")
		return nil
	}
	if err != nil {
		return err
	}
	v := ref.Value
	a, bb := resolveBound(c.A, v), resolveBound(c.B, v)
	if refsearch.Less(bb, a) {
		a, bb = bb, a
	}
	if !refsearch.Less(a, bb) {
		stats.Case("C13/window", 0, false, "discarded-empty-window")
		return nil
	}
	tt, withTable := tableFor(c.searchCase, cfg, b, g, ref)
	sctx := &search.Context{Alpha: refsearch.ToScore(a), Beta: refsearch.ToScore(bb), TT: tt}
	switch c.Unset {
	case "a":
		a, sctx.Alpha = refsearch.Value{Class: refsearch.Lost}, eval.InvalidScore
	case "b":
		bb, sctx.Beta = refsearch.Value{Class: refsearch.Won}, eval.InvalidScore
	}
	sb := b.Fork()
	var score eval.Score
	what := fmt.Sprintf("%s depth %d", c.Config, c.Depth)
	if c.Quiet {
		what = c.Config + " quiescence"
		ab := s.(search.AlphaBeta)
		_, score = ab.Eval.QuietSearch(context.Background(), sctx, sb)
	} else {
		var serr error
		_, score, _, serr = s.Search(context.Background(), sctx, sb, c.Depth)
		if serr != nil {
			return fmt.Errorf("search failed: %v", serr)
		}
	}
	r, ok := refsearch.FromScore(score)
	if !ok {
		return fmt.Errorf("%s returned the invalid score %v", what, score)
	}
	where := fmt.Sprintf("%s at %s (history %d plies)", what, g.Cur().FEN(), len(c.Moves))
	if err := judgeWindow(v, a, bb, r); err != nil {
		return fmt.Errorf("%s: %v", where, err)
	}
	if withTable && !c.Quiet {
		// a clipped result is a bound, not a value: the next search of the same root on the same
		// table, with the full window, must still return the true value
		s2, _ := cfg.make(c.Param)
		_, again, _, serr := s2.Search(context.Background(), &search.Context{TT: tt}, b.Fork(), c.Depth)
		if serr != nil {
			return fmt.Errorf("%s: second search failed: %v", where, serr)
		}
		if r2, ok := refsearch.FromScore(again); !ok || !sameValue(r2, v) {
			return fmt.Errorf("%s: after a search with the window (%v, %v) (which returned %v), a full-window search on the same table returns %v; the true value is %v", where, a, bb, r, again, v)
		}
	}
	var labels []string
	pos := "inside"
	if !refsearch.Less(a, v) {
		pos = "v<=a"
	} else if !refsearch.Less(v, bb) {
		pos = "v>=b"
	}
	labels = append(labels, pos, "cfg:"+c.Config)
	mateBound := a.Class != refsearch.Heuristic || bb.Class != refsearch.Heuristic
	finiteMate := (a.Class == refsearch.MateIn || a.Class == refsearch.MatedIn) || (bb.Class == refsearch.MateIn || bb.Class == refsearch.MatedIn)
	if finiteMate {
		labels = append(labels, "mate-distance-bound")
	}
	tight := c.A.Kind == "below" || c.A.Kind == "above" || c.A.Kind == "v" || c.B.Kind == "below" || c.B.Kind == "above" || c.B.Kind == "v"
	if tight {
		labels = append(labels, "bound-adjacent-to-v")
	}
	if v.Class != refsearch.Heuristic {
		labels = append(labels, "mate-valued-v")
	}
	if withTable {
		labels = append(labels, "with-fresh-table", "full-window-search-afterwards-on-the-same-table")
	}
	if c.Unset != "" {
		labels = append(labels, "half-open-window")
	}
	if c.Quiet {
		labels = append(labels, "quiescence-direct")
		// full-window facts about quiescence
	}
	stats.Case("C13/window", stats.FP(c.FEN, fmt.Sprint(c.Moves), c.Config, c.Param, c.Depth, c.A, c.B, c.Quiet, c.TableBytes, c.Unset), (mateBound && finiteMate) || tight || c.Unset != "", labels...)
	return nil
})

func genBound(t *rapid.T, label string) boundSpec {
	switch rapid.IntRange(0, 11).Draw(t, label+"_kind") {
	case 0:
		return boundSpec{Kind: "lost"}
	case 1:
		return boundSpec{Kind: "won"}
	case 2:
		return boundSpec{Kind: "v"}
	case 3:
		return boundSpec{Kind: "below"}
	case 4:
		return boundSpec{Kind: "above"}
	case 5:
		return boundSpec{Kind: "mate", N: rapid.IntRange(1, 9).Draw(t, label+"_n")}
	case 6:
		return boundSpec{Kind: "mated", N: rapid.IntRange(1, 9).Draw(t, label+"_n")}
	case 7, 8:
		return boundSpec{Kind: "vshift", N: rapid.SampledFrom([]int{-2, -1, 1, 2, 3}).Draw(t, label+"_n")}
	case 9:
		return boundSpec{Kind: "vplus", X: float32(rapid.IntRange(-40, 40).Draw(t, label+"_x")) / 4}
	default:
		return boundSpec{Kind: "heur", X: float32(rapid.IntRange(-120, 120).Draw(t, label+"_x")) / 4}
	}
}

func TestC13_window(t *testing.T) {
	runRapid(t, "C13/window", 30000, func(t *rapid.T) windowCase {
		c := windowCase{searchCase: genSearchCase(t, abConfigs), A: genBound(t, "a"), B: genBound(t, "b")}
		if rapid.IntRange(0, 5).Draw(t, "halfopen") == 0 {
			c.Unset = rapid.SampledFrom([]string{"a", "b"}).Draw(t, "unset")
		}
		if c.Depth > 4 {
			c.Depth = 4 // smaller trees than C03: several windows per root matter more than depth
		}
		if cfg, _ := findConfig(c.Config); cfg.Quiescence && rapid.IntRange(0, 2).Draw(t, "quiet") == 0 {
			c.Quiet = true
			if rapid.Bool().Draw(t, "terminalroot") {
				// a root at or next to a mate/stalemate: walk a sparse ending towards its end
				st := matingEnding(t)
				g := oracle.NewGame(st)
				c.FEN, c.Moves = st.FEN(), nil
				stopBefore := rapid.IntRange(0, 2).Draw(t, "stopbefore")
				for i := 0; i < 40 && g.Cur().Pos.HasLegal() && !g.DrawNow(); i++ {
					l := g.Cur().Pos.Legal()
					pick := l[rapid.IntRange(0, len(l)-1).Draw(t, "mv")]
					final := false
					for _, m := range l {
						n := g.Cur().Pos.Make(m)
						if !n.HasLegal() {
							pick, final = m, true
						}
					}
					if final && stopBefore > 0 {
						break
					}
					g.Push(pick)
					c.Moves = append(c.Moves, pick.String())
				}
			}
		}
		return c
	}, func(c windowCase) error {
		stats.Sample("C13/window", c)
		return checkC13(c)
	})
}

// quietCase: full-window facts about the quiescence search.
var checkC13Quiet = def("C13/quiescence", func(c searchCase) error {
	b, g, cfg, err := setupSearch(c)
	if err == errDiscard || (err == nil && (g.DrawNow() || b.Result().Outcome == board.Draw)) {
		stats.Case("C13/quiescence", 0, false, "discarded-drawn-root")
		return nil
	}
	if err != nil {
		return err
	}
	if !cfg.Quiescence {
		return fmt.Errorf("case: configuration %s has no quiescence search", c.Config)
	}
	s, rcfg := cfg.make(c.Param)
	ab := s.(search.AlphaBeta)
	sb := b.Fork()
	_, score := ab.Eval.QuietSearch(context.Background(), search.EmptyContext, sb)
	r, ok := refsearch.FromScore(score)
	if !ok {
		return fmt.Errorf("quiescence returned the invalid score %v", score)
	}
	root := &g.Cur().Pos
	static := refsearch.Value{Class: refsearch.Heuristic, H: float32(rcfg.Eval.Evaluate(context.Background(), b.Fork()))}
	label := "has-legal-move"
	switch {
	case !root.HasLegal() && root.InCheck(root.White):
		label = "checkmate"
		if r.Class != refsearch.Lost {
			return fmt.Errorf("%s quiescence rates the checkmate %s as %v", c.Config, g.Cur().FEN(), r)
		}
	case !root.HasLegal():
		label = "stalemate"
		if !sameValue(r, refsearch.Value{Class: refsearch.Heuristic}) {
			return fmt.Errorf("%s quiescence rates the stalemate %s as %v", c.Config, g.Cur().FEN(), r)
		}
	default:
		if refsearch.Less(r, static) {
			return fmt.Errorf("%s quiescence rates %s at %v, below its static evaluation %v, although a legal move exists", c.Config, g.Cur().FEN(), r, static)
		}
	}
	stats.Case("C13/quiescence", stats.FP(c.FEN, fmt.Sprint(c.Moves), c.Config), true, label, "cfg:"+c.Config)
	return nil
})

func TestC13_quiescence(t *testing.T) {
	var quiet []searchConfig
	for _, c := range abConfigs {
		if c.Quiescence {
			quiet = append(quiet, c)
		}
	}
	runRapid(t, "C13/quiescence", 8000, func(t *rapid.T) searchCase {
		c := genSearchCase(t, quiet)
		c.Depth = 0
		if rapid.IntRange(0, 3).Draw(t, "terminal") == 0 {
			// walk a low-material game to its end: mates and stalemates
			st := matingEnding(t)
			g := oracle.NewGame(st)
			c.FEN, c.Moves = st.FEN(), nil
			for i := 0; i < 60 && g.Cur().Pos.HasLegal() && !g.DrawNow(); i++ {
				l := g.Cur().Pos.Legal()
				// prefer moves that leave the opponent without moves
				pick := l[rapid.IntRange(0, len(l)-1).Draw(t, "mv")]
				for _, m := range l {
					n := g.Cur().Pos.Make(m)
					if !n.HasLegal() {
						pick = m
					}
				}
				g.Push(pick)
				c.Moves = append(c.Moves, pick.String())
			}
		}
		return c
	}, func(c searchCase) error {
		stats.Sample("C13/quiescence", c)
		return checkC13Quiet(c)
	})
}
