package props

import (
	"context"
	"sync"

	"github.com/herohde/morlock/pkg/board"
	"github.com/herohde/morlock/pkg/eval"
	"github.com/herohde/morlock/pkg/search"
)

// gatedSearch wraps a root search so that the harness owns the schedule of iterative
// deepening: every call announces the depth it is about to search and, when the harness
// wants to hold it there, blocks until released. No hook in the repository is needed:
// engine.New and searchctl.Iterative take any search.Search.
type gatedSearch struct {
	inner search.Search

	mu       sync.Mutex
	holdFrom int                // hold every iteration with depth >= holdFrom (0 = never)
	entering chan gateEvent     // announced iterations (only those that are held)
	calls    int                // number of Search calls started
	launches []context.Context  // context of every depth-1 call, in order: one per launched analysis
	onCall   func(depth int)    // optional observer
	// holdExitAt > 0: the iteration of that depth is also held AFTER it has completed, before its
	// result is handed back to the caller (announced on exiting).
	holdExitAt int
	exiting    chan gateEvent
}

// launchCount returns how many analyses have made their first (depth 1) call so far.
func (g *gatedSearch) launchCount() int {
	g.mu.Lock()
	defer g.mu.Unlock()
	return len(g.launches)
}

// launchIndex returns the ordinal of the analysis a context belongs to, or -1.
func (g *gatedSearch) launchIndex(ctx context.Context) int {
	g.mu.Lock()
	defer g.mu.Unlock()
	for i, c := range g.launches {
		if c == ctx {
			return i
		}
	}
	return -1
}

type gateEvent struct {
	depth   int
	release chan struct{}
	ctx     context.Context
}

func newGatedSearch(inner search.Search, holdFrom int) *gatedSearch {
	return &gatedSearch{inner: inner, holdFrom: holdFrom, entering: make(chan gateEvent, 64)}
}

func (g *gatedSearch) Search(ctx context.Context, sctx *search.Context, b *board.Board, depth int) (uint64, eval.Score, []board.Move, error) {
	g.mu.Lock()
	g.calls++
	if depth == 1 {
		g.launches = append(g.launches, ctx)
	}
	hold := g.holdFrom > 0 && depth >= g.holdFrom
	cb := g.onCall
	g.mu.Unlock()
	if cb != nil {
		cb(depth)
	}
	if hold {
		ev := gateEvent{depth: depth, release: make(chan struct{}), ctx: ctx}
		g.entering <- ev
		<-ev.release
	}
	n, score, pv, err := g.inner.Search(ctx, sctx, b, depth)
	g.mu.Lock()
	holdExit := g.holdExitAt > 0 && depth == g.holdExitAt && g.exiting != nil
	g.mu.Unlock()
	if holdExit {
		ev := gateEvent{depth: depth, release: make(chan struct{}), ctx: ctx}
		g.exiting <- ev
		<-ev.release
	}
	return n, score, pv, err
}
