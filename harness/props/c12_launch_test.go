package props

import (
	"context"
	"fmt"
	"sync/atomic"
	"testing"
	"time"

	"github.com/herohde/morlock/pkg/board"
	"github.com/herohde/morlock/pkg/eval"
	"github.com/herohde/morlock/pkg/search"
	"github.com/herohde/morlock/pkg/search/searchctl"
	"pgregory.net/rapid"
	"verifharness/stats"
)

// C12/launchctx: an iterative analysis halted through the context it was launched with (not
// through Halt): the interrupted iteration reports that it was halted rather than a score, so
// nothing of it may be published; the stream ends, and Halt() afterwards hands out the last
// iteration that did complete.
type launchHaltCase struct {
	searchCase     // Depth unused
	CancelAt   int `json:"cancel_at"` // cancel the launch context while iteration CancelAt is held at the gate
	Polls      int `json:"polls"`     // 0: cancel at the gate; n > 0: cancel at the n-th poll inside that iteration
}

var checkC12Launch = def("C12/launchctx", func(c launchHaltCase) error {
	b, g, cfg, err := setupSearch(c.searchCase)
	if err == errDiscard {
		stats.Case("C12/launchctx", 0, false, "discarded-sticky-draw-root")
		return nil
	}
	if err != nil {
		return err
	}
	if !g.Cur().Pos.HasLegal() {
		stats.Case("C12/launchctx", 0, false, "terminal-root")
		return nil
	}
	k := max(1, c.CancelAt)
	direct := map[int]eval.Score{}
	for d := 1; d < k; d++ {
		s, _ := cfg.make(c.Param)
		_, score, _, err := s.Search(context.Background(), search.EmptyContext, b.Fork(), d)
		if err != nil {
			return err
		}
		if md, ok := score.MateDistance(); ok && int(md) <= d {
			k = d + 1 // the analysis ends by itself after depth d: nothing later to interrupt
			stats.Case("C12/launchctx", 0, false, "ends-by-itself-before-the-cancellation")
			return nil
		}
		direct[d] = score
	}
	inner, _ := cfg.make(c.Param)
	parent, cancel := context.WithCancel(context.Background())
	defer cancel()
	var tripped, shorter atomic.Bool
	if c.Polls > 0 {
		// the launch context is cancelled from inside iteration k, at its n-th cancellation poll
		inner = tripSearch{inner: inner, depth: k, n: c.Polls, trip: func() { tripped.Store(true); cancel() }}
	}
	gs := newGatedSearch(inner, k)
	it := &searchctl.Iterative{Root: gs}
	h, out := it.Launch(parent, b.Fork(), search.NoTranspositionTable{}, eval.Random{}, searchctl.Options{})
	where := fmt.Sprintf("%s at %s, launch context cancelled during iteration %d", c.Config, g.Cur().FEN(), k)

	var ev gateEvent
	select {
	case ev = <-gs.entering:
	case <-time.After(liveness):
		return fmt.Errorf("%s: iteration %d never started", where, k)
	}
	if c.Polls == 0 {
		cancel()
	}
	close(ev.release)
	// further iterations (there must be none) are let through so that a runaway loop shows
	stopRelease := make(chan struct{})
	defer close(stopRelease)
	go func() {
		for {
			select {
			case e := <-gs.entering:
				if c.Polls > 0 && !tripped.Load() {
					// iteration k finished before its n-th poll: nothing was cancelled. End the case.
					shorter.Store(true)
					cancel()
				}
				close(e.release)
			case <-stopRelease:
				return
			}
		}
	}()
	var got []search.PV
	deadline := time.After(liveness)
loop:
	for {
		select {
		case pv, ok := <-out:
			if !ok {
				break loop
			}
			got = append(got, pv)
			if len(got) > k+4 && !shorter.Load() {
				h.Halt()
				return fmt.Errorf("%s: the analysis keeps reporting (%d reports, latest %v)", where, len(got), pv)
			}
		case <-deadline:
			h.Halt()
			return fmt.Errorf("%s: the stream does not end (%d reports so far)", where, len(got))
		}
	}
	if shorter.Load() || (c.Polls > 0 && !tripped.Load()) {
		h.Halt()
		stats.Case("C12/launchctx", 0, false, "iteration-shorter-than-poll-index")
		return nil
	}
	last := 0
	for _, pv := range got {
		want, ok := direct[pv.Depth]
		if !ok || pv.Depth <= last {
			return fmt.Errorf("%s: the analysis published %v, but only iterations 1..%d completed", where, pv, k-1)
		}
		if pv.Score != want {
			return fmt.Errorf("%s: published depth %d with score %v, a direct search returns %v", where, pv.Depth, pv.Score, want)
		}
		last = pv.Depth
	}
	done := make(chan search.PV, 1)
	go func() { done <- h.Halt() }()
	select {
	case pv := <-done:
		if k > 1 {
			if pv.Depth != k-1 || pv.Score != direct[k-1] {
				return fmt.Errorf("%s: Halt() returns %v; the last completed iteration is depth %d with score %v", where, pv, k-1, direct[k-1])
			}
		} else if pv.Depth != 0 && !(pv.Depth == 1 && !pv.Score.IsInvalid()) {
			return fmt.Errorf("%s: Halt() returns %v although no iteration completed", where, pv)
		}
	case <-time.After(liveness):
		return fmt.Errorf("%s: Halt() does not return", where)
	}
	labels := []string{"cfg:" + c.Config, fmt.Sprintf("cancelled-in-iteration:%d", min(k, 4))}
	if c.Polls > 0 {
		labels = append(labels, "cancelled-inside-the-search")
	} else {
		labels = append(labels, "cancelled-before-the-first-poll")
	}
	stats.Case("C12/launchctx", stats.FP(c.FEN, fmt.Sprint(c.Moves), c.Config, c.Param, c.CancelAt, c.Polls), true, labels...)
	return nil
})

func TestC12_launchctx(t *testing.T) {
	runRapid(t, "C12/launchctx", 1500, func(t *rapid.T) launchHaltCase {
		sc := genSearchCase(t, searchConfigs)
		c := launchHaltCase{searchCase: sc, CancelAt: rapid.IntRange(1, max(1, min(sc.Depth, 4))).Draw(t, "cancelat")}
		if rapid.Bool().Draw(t, "inside") {
			c.Polls = rapid.IntRange(1, 40).Draw(t, "polls")
		}
		return c
	}, func(c launchHaltCase) error {
		stats.Sample("C12/launchctx", c)
		return checkC12Launch(c)
	})
}

// tripSearch runs the iteration of the given depth under a context that counts cancellation
// polls and pulls the trip at the n-th one (the launch context is cancelled synchronously, so
// that very poll already sees the cancellation).
type tripSearch struct {
	inner search.Search
	depth int
	n     int
	trip  func()
}

type tripCtx struct {
	context.Context
	polls, n int
	trip     func()
}

func (c *tripCtx) Done() <-chan struct{} {
	c.polls++
	if c.polls == c.n {
		c.trip()
	}
	return c.Context.Done()
}

func (s tripSearch) Search(ctx context.Context, sctx *search.Context, b *board.Board, depth int) (uint64, eval.Score, []board.Move, error) {
	if depth == s.depth {
		ctx = &tripCtx{Context: ctx, n: s.n, trip: s.trip}
	}
	return s.inner.Search(ctx, sctx, b, depth)
}

// C12/iterhalt: an iterative analysis halted through Handle.Halt in the middle of an iteration.
// When the analysis says it is over (its stream has closed), the board it was launched on is back
// in the state it was handed over in - nobody is still moving pieces on it.
type iterHaltCase struct {
	searchCase     // Depth unused
	DelayUS    int `json:"delay_us"`
}

var checkC12IterHalt = def("C12/iterhalt", func(c iterHaltCase) error {
	b, g, cfg, err := setupSearch(c.searchCase)
	if err == errDiscard {
		stats.Case("C12/iterhalt", 0, false, "discarded-sticky-draw-root")
		return nil
	}
	if err != nil {
		return err
	}
	inner, _ := cfg.make(c.Param)
	lb := b.Fork()
	before := takeSnap(lb)
	h, out := (&searchctl.Iterative{Root: inner}).Launch(context.Background(), lb, search.NoTranspositionTable{}, eval.Random{}, searchctl.Options{})
	if c.DelayUS > 0 {
		time.Sleep(time.Duration(c.DelayUS) * time.Microsecond)
	}
	pv := h.Halt()
	deadline := time.After(liveness)
	reports := 0
loop:
	for {
		select {
		case _, ok := <-out:
			if !ok {
				break loop
			}
			reports++
		case <-deadline:
			return fmt.Errorf("%s at %s: the stream does not close after Halt()", c.Config, g.Cur().FEN())
		}
	}
	for k := 0; k < 3; k++ {
		if d := diffSnap(takeSnap(lb), before, !g.Cur().Pos.HasLegal()); d != "" {
			return fmt.Errorf("%s at %s, halted %d us after launch (Halt() returned depth %d): the analysis is over (stream closed) but the board it was launched on reports %s", c.Config, g.Cur().FEN(), c.DelayUS, pv.Depth, d)
		}
	}
	stats.Case("C12/iterhalt", stats.FP(c.FEN, fmt.Sprint(c.Moves), c.Config, c.Param, c.DelayUS), true, "cfg:"+c.Config, fmt.Sprintf("halted-at-depth:%d", min(pv.Depth, 5)))
	return nil
})

func TestC12_iterhalt(t *testing.T) {
	runRapid(t, "C12/iterhalt", 4000, func(t *rapid.T) iterHaltCase {
		return iterHaltCase{searchCase: genSearchCase(t, searchConfigs), DelayUS: rapid.SampledFrom([]int{0, 0, 20, 100, 500, 2000}).Draw(t, "delay")}
	}, func(c iterHaltCase) error {
		stats.Sample("C12/iterhalt", c)
		return checkC12IterHalt(c)
	})
}
