package props

import (
	"context"
	"fmt"
	"strings"
	"testing"

	"github.com/herohde/morlock/pkg/board"
	"pgregory.net/rapid"
	"verifharness/bridge"
	"verifharness/gen"
	"verifharness/oracle"
	"verifharness/stats"
)

// posStep is one command of a C10 script.
type posStep struct {
	NewGame bool   `json:"ucinewgame,omitempty"` // send ucinewgame instead of a position
	Cmd     posCmd `json:"position"`
	Rel     string `json:"relation,omitempty"` // how it relates to the previous position command (label)
	// Aside: a command that is neither position nor ucinewgame nor go (setoption, isready, debug,
	// an unknown word) sent at this step; the most recent position command stays the same.
	Aside string `json:"aside,omitempty"`
}

type posCase struct {
	// Pre: a game the engine was used for through its API before the driver was attached to it
	// (a second session on the same engine). The commands say what the game is from then on.
	Pre   *posCmd   `json:"pre,omitempty"`
	Steps []posStep `json:"steps"`
	Probe []string  `json:"probe"` // further moves played on both boards after the last command
}

// engineGameMatches compares the engine's game with the oracle game of the last command
// and with a fresh engine+driver that was given only that command.
func engineGameMatches(s *uciSession, cmd posCmd, probe []string) error {
	g, err := cmd.game()
	if err != nil {
		return err
	}
	if got := s.e.Position(); got != g.Cur().FEN() {
		return fmt.Errorf("Engine.Position()=%q, the command describes %q", got, g.Cur().FEN())
	}
	fresh := newUCISession(newPlainEngine())
	defer fresh.quit()
	if !fresh.send(cmd.text()) {
		return fmt.Errorf("fresh driver refused input")
	}
	if why := fresh.barrier(); why != "" {
		return fmt.Errorf("a fresh driver given only %q: %s", cmd.text(), why)
	}
	a, b := s.e.Board(), fresh.e.Board()
	if d := diffSnap(takeSnap(a), takeSnap(b), false); d != "" {
		return fmt.Errorf("the engine's game differs from a fresh set-up of the same command: %s", d)
	}
	if a.Result() != b.Result() && !(a.Result().Outcome <= board.Undecided && b.Result().Outcome <= board.Undecided) {
		return fmt.Errorf("result %v, a fresh set-up of the same command has %v", a.Result(), b.Result())
	}
	// hidden history (repetition detection): play on in lock-step
	for i, mv := range probe {
		om, ok := g.Cur().Pos.FindMove(mv)
		if !ok {
			break // probe line no longer applies to this position
		}
		if _, err := pushOracleMove(a, om); err != nil {
			return err
		}
		if _, err := pushOracleMove(b, om); err != nil {
			return err
		}
		g.Push(om)
		if d := diffSnap(takeSnap(a), takeSnap(b), false); d != "" {
			return fmt.Errorf("playing on (%d: %s), the engine's game reports %s compared with a fresh set-up of the same command", i, mv, d)
		}
		if err := judgeResult(a, g, fmt.Sprintf("playing on (%d: %s)", i, mv)); err != nil {
			return err
		}
	}
	return nil
}

var checkC10 = def("C10/position", func(c posCase) error {
	e0 := newPlainEngine()
	var labels []string
	if c.Pre != nil {
		ctx := context.Background()
		f := c.Pre.FEN
		if f == "" {
			f = oracle.InitialFEN
		}
		if err := e0.Reset(ctx, f); err != nil {
			return fmt.Errorf("case: pre-use: %v", err)
		}
		for _, mv := range c.Pre.Moves {
			if err := e0.Move(ctx, mv); err != nil {
				return fmt.Errorf("case: pre-use: %v", err)
			}
		}
		labels = append(labels, "engine-used-before-the-driver-attached")
	}
	s := newUCISession(e0)
	defer s.quit()
	var last *posCmd
	shortcut, asides := 0, 0
	prevText := ""
	for i, st := range c.Steps {
		text := "ucinewgame"
		if st.Aside != "" {
			text = st.Aside
		} else if !st.NewGame {
			text = st.Cmd.text()
		}
		if !s.send(text) {
			return fmt.Errorf("step %d: driver no longer reads before %q", i, text)
		}
		if why := s.barrier(); why != "" {
			return fmt.Errorf("step %d: after the valid command %q: %s", i, text, why)
		}
		if st.Aside != "" {
			labels = append(labels, "aside:"+strings.Join(strings.Fields(st.Aside+" - -")[:3], " "))
			if last != nil {
				asides++
			}
		} else if st.NewGame {
			prevText = ""
			labels = append(labels, "ucinewgame")
		} else {
			cmd := st.Cmd
			last = &cmd
			if prevText != "" && strings.HasPrefix(text, prevText) {
				shortcut++ // this command is textually a continuation of the previous one
				labels = append(labels, "continuation:"+st.Rel)
			} else if st.Rel != "" {
				labels = append(labels, "fresh:"+st.Rel)
			}
			prevText = text
		}
		if last != nil {
			var probe []string
			if i == len(c.Steps)-1 {
				probe = c.Probe
			}
			if err := engineGameMatches(s, *last, probe); err != nil {
				return fmt.Errorf("step %d (%q): %v", i, text, err)
			}
		}
	}
	stats.Case("C10/position", stats.FP(fmt.Sprint(c.Pre), fmt.Sprint(c.Steps), fmt.Sprint(c.Probe)), (len(c.Steps) >= 2 && (shortcut > 0 || asides > 0)) || c.Pre != nil, dedup(labels)...)
	stats.Note("C10/position", "commands", int64(len(c.Steps)))
	return nil
})

// textualFENExtension returns a FEN whose text extends f (same prefix, longer last field).
func textualFENExtension(t *rapid.T, f string) string {
	return f + rapid.SampledFrom([]string{"0", "2", "7"}).Draw(t, "digit")
}

func genPosCase(t *rapid.T) posCase {
	var c posCase
	start := func() (string, *oracle.Game) {
		if rapid.IntRange(0, 2).Draw(t, "startpos") > 0 {
			return "", oracle.NewGame(oracle.MustFEN(oracle.InitialFEN))
		}
		st := gen.Start(t)
		st.Half = rapid.SampledFrom([]int{0, 0, 1, 5, 50, 97}).Draw(t, "half")
		st.Full = rapid.SampledFrom([]int{1, 1, 1, 2, 3, 10}).Draw(t, "full")
		return st.FEN(), oracle.NewGame(st)
	}
	pol := gen.DrawPolicy(t)
	if rapid.Bool().Draw(t, "shuffle") {
		pol = gen.Policy{0, 1, 0, 0, 1, 1, 0, 12, 0, 6}
	}
	if rapid.IntRange(0, 5).Draw(t, "preused") == 0 {
		gc, _ := gen.Game(t, 12)
		c.Pre = &posCmd{FEN: gc.FEN, Moves: gc.Moves}
		if gc.FEN == oracle.InitialFEN {
			c.Pre.FEN = ""
		}
	}
	fenText, g := start()
	var moves []string
	play := func(n int) {
		for i := 0; i < n; i++ {
			m, ok := gen.PickMove(t, g, pol)
			if !ok {
				return
			}
			g.Push(m)
			moves = append(moves, m.String())
		}
	}
	play(rapid.IntRange(0, 12).Draw(t, "plies0"))
	c.Steps = append(c.Steps, posStep{Cmd: posCmd{FEN: fenText, Moves: append([]string(nil), moves...)}})
	n := rapid.IntRange(1, 7).Draw(t, "nsteps")
	for i := 0; i < n; i++ {
		rel := rapid.SampledFrom([]string{"verbatim", "extend", "extend", "extend", "truncate", "other-line", "fresh", "fen-textual-extension", "fen-of-current", "fen-of-current", "case-twin", "ucinewgame", "aside"}).Draw(t, "rel")
		switch rel {
		case "aside":
			c.Steps = append(c.Steps, posStep{Aside: rapid.SampledFrom([]string{
				"debug on", "debug off", "xyzzy", "register later",
				"setoption name Hash value 1", "setoption name Hash value 0", "setoption name Hash value 2",
				"setoption name Noise value 0", "setoption name Noise value 10", "setoption name Depth value 2", "setoption name Depth value 0",
				"setoption name OwnBook value true", "setoption name OwnBook value false", "setoption name Ponder value true",
				"setoption name Clear Hash", "setoption name UCI_AnalyseMode value true", "setoption", "stop",
			}).Draw(t, "aside")})
			continue
		case "ucinewgame":
			c.Steps = append(c.Steps, posStep{NewGame: true})
			continue
		case "verbatim":
		case "extend":
			play(rapid.IntRange(1, 3).Draw(t, "plies"))
		case "truncate":
			k := rapid.IntRange(0, len(moves)).Draw(t, "keep")
			for len(moves) > k {
				moves = moves[:len(moves)-1]
				g.Pop()
			}
		case "other-line":
			k := rapid.IntRange(0, len(moves)).Draw(t, "keep")
			for len(moves) > k {
				moves = moves[:len(moves)-1]
				g.Pop()
			}
			play(rapid.IntRange(1, 4).Draw(t, "plies"))
		case "fresh":
			fenText, g = start()
			moves = nil
			play(rapid.IntRange(0, 6).Draw(t, "plies"))
		case "case-twin":
			// the previous set-up FEN with the letter case of the castling field (or of the whole
			// placement) swapped: text equal up to case, a different game
			base := fenText
			if base == "" {
				base = oracle.InitialFEN
			}
			f := strings.Split(base, " ")
			swap := func(s string) string {
				var sb strings.Builder
				for _, r := range s {
					switch {
					case r >= 'a' && r <= 'z':
						sb.WriteRune(r - 32)
					case r >= 'A' && r <= 'Z':
						sb.WriteRune(r + 32)
					default:
						sb.WriteRune(r)
					}
				}
				return sb.String()
			}
			if rapid.Bool().Draw(t, "castlingonly") && f[2] != "-" {
				f[2] = swap(f[2])
				// canonical order KQkq
				o := ""
				for _, c := range "KQkq" {
					if strings.ContainsRune(f[2], c) {
						o += string(c)
					}
				}
				f[2] = o
			} else {
				f[0], f[2] = swap(f[0]), "-"
				f[3] = "-"
			}
			st, err := oracle.ParseFEN(strings.Join(f, " "))
			if err != nil || st.Pos.InCheck(!st.Pos.White) || st.Pos.KingSq(true) < 0 || st.Pos.KingSq(false) < 0 {
				continue
			}
			// rights only where king and rook are at home (well-formed)
			if (st.Pos.WK && (st.Pos.Sq[oracle.E1] != oracle.King || st.Pos.Sq[oracle.H1] != oracle.Rook)) ||
				(st.Pos.WQ && (st.Pos.Sq[oracle.E1] != oracle.King || st.Pos.Sq[oracle.A1] != oracle.Rook)) ||
				(st.Pos.BK && (st.Pos.Sq[oracle.E8] != -oracle.King || st.Pos.Sq[oracle.H8] != -oracle.Rook)) ||
				(st.Pos.BQ && (st.Pos.Sq[oracle.E8] != -oracle.King || st.Pos.Sq[oracle.A8] != -oracle.Rook)) {
				continue
			}
			fenText = st.FEN()
			g = oracle.NewGame(st)
			moves = nil
			play(rapid.IntRange(0, 3).Draw(t, "plies"))
		case "fen-of-current":
			// some GUIs re-send the current position as a FEN (same six fields the engine reports),
			// with or without further moves: it describes a NEW game without the earlier history
			cur := *g.Cur()
			fenText = cur.FEN()
			g = oracle.NewGame(cur)
			moves = nil
			play(rapid.IntRange(0, 6).Draw(t, "plies"))
		case "fen-textual-extension":
			// the same set-up position with a longer last field: "... 0 1" -> "... 0 12"
			base := fenText
			if base == "" {
				base = oracle.InitialFEN
			}
			fenText = textualFENExtension(t, base)
			st, err := oracle.ParseFEN(fenText)
			if err != nil {
				continue
			}
			// keep the old moves only if this step should look like a continuation
			old := moves
			g = oracle.NewGame(st)
			moves = nil
			if rapid.Bool().Draw(t, "keepmoves") {
				for _, mv := range old {
					m, ok := g.Cur().Pos.FindMove(mv)
					if !ok {
						break
					}
					g.Push(m)
					moves = append(moves, mv)
				}
			}
			play(rapid.IntRange(0, 2).Draw(t, "plies"))
		}
		c.Steps = append(c.Steps, posStep{Cmd: posCmd{FEN: fenText, Moves: append([]string(nil), moves...)}, Rel: rel})
	}
	// probe line: a few more moves from the final position, shuffling to reach repetitions
	pg := g.Clone()
	for i, n := 0, rapid.IntRange(0, 6).Draw(t, "probe"); i < n; i++ {
		m, ok := gen.PickMove(t, pg, gen.Policy{0, 0, 0, 0, 1, 1, 0, 12, 0, 4})
		if !ok {
			break
		}
		pg.Push(m)
		c.Probe = append(c.Probe, m.String())
	}
	return c
}

func TestC10_position(t *testing.T) {
	runRapid(t, "C10/position", 24000, genPosCase, func(c posCase) error {
		stats.Sample("C10/position", c)
		return checkC10(c)
	})
}

var _ = bridge.Text
