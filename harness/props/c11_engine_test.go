package props

import (
	"context"
	"fmt"
	"testing"

	"github.com/herohde/morlock/pkg/engine"
	"github.com/herohde/morlock/pkg/search"
	"github.com/herohde/morlock/pkg/search/searchctl"
	"github.com/seekerror/stdlib/pkg/lang"
	"pgregory.net/rapid"
	"verifharness/bridge"
	"verifharness/gen"
	"verifharness/oracle"
	"verifharness/refsearch"
	"verifharness/stats"
)

// C11/engine: the lifetime of the engine's table. One engine with the Hash option on plays a
// series of games (Reset, moves, one analysis each); some of the games are outside the
// property's scope on purpose (half-move clock close to 100, repetitions in the history,
// evaluation noise) and some are inside. Every analysis that is inside the scope must report
// the exhaustive value of its position, whatever the engine was used for before.

type engGame struct {
	FEN   string   `json:"fen"`
	Moves []string `json:"moves"`
	Noise uint     `json:"noise,omitempty"`
	Depth int      `json:"depth"`
	Kind  string   `json:"kind"`
}

type engTTCase struct {
	Config string    `json:"config"`
	Param  int       `json:"param"`
	Hash   uint      `json:"hash_mb"`
	Games  []engGame `json:"games"`
}

func lastReport(e *engine.Engine, depth int) (search.PV, bool, error) {
	ctx := context.Background()
	out, err := e.Analyze(ctx, searchctl.Options{DepthLimit: lang.Some(uint(depth))})
	if err != nil {
		return search.PV{}, false, err
	}
	var last search.PV
	seen := false
	for pv := range out {
		last, seen = pv, true
	}
	_, _ = e.Halt(ctx)
	return last, seen, nil
}

var checkC11Engine = def("C11/engine", func(c engTTCase) error {
	cfg, err := findConfig(c.Config)
	if err != nil {
		return err
	}
	if !cfg.PositionDetermined {
		return fmt.Errorf("case: %s is not position-determined", c.Config)
	}
	ctx := context.Background()
	s, rcfg := cfg.make(c.Param)
	rcfg.Budget = 40_000
	if cfg.Quiescence {
		rcfg.Budget = 10_000
	}
	e := engine.New(ctx, "verif", "verif", s, engine.WithOptions(engine.Options{Hash: c.Hash}))
	var labels []string
	inScope, afterDirty := 0, 0
	dirtyBefore := false
	for i, gm := range c.Games {
		st, err := oracle.ParseFEN(gm.FEN)
		if err != nil {
			return fmt.Errorf("case: %v", err)
		}
		g := oracle.NewGame(st)
		e.SetNoise(gm.Noise)
		if err := e.Reset(ctx, gm.FEN); err != nil {
			return fmt.Errorf("game %d: Reset(%q): %v", i, gm.FEN, err)
		}
		for _, mv := range gm.Moves {
			om, ok := g.Cur().Pos.FindMove(mv)
			if !ok {
				return fmt.Errorf("case: game %d move %s not legal", i, mv)
			}
			if err := e.Move(ctx, mv); err != nil {
				return fmt.Errorf("game %d: move %s: %v", i, mv, err)
			}
			g.Push(om)
		}
		if !g.Cur().Pos.HasLegal() {
			continue
		}
		got, seen, err := lastReport(e, gm.Depth)
		if err != nil {
			return fmt.Errorf("game %d: Analyze: %v", i, err)
		}
		if !seen {
			return fmt.Errorf("game %d (%s): the analysis reported nothing", i, gm.Kind)
		}
		// is this game one the property speaks about?
		scope := gm.Noise == 0
		for _, fired := range g.Fired {
			for _, r := range fired {
				if r != oracle.RuleInsufficient {
					scope = false
				}
			}
		}
		var ref *refsearch.Result
		if scope {
			b, _, err := buildBoard(zt0, gen2case(gm))
			if err != nil {
				return err
			}
			ref, err = refsearch.Search(rcfg, g.Clone(), b, got.Depth)
			if err == refsearch.ErrBudget {
				scope = false
				labels = append(labels, "over-budget-game")
			} else if err != nil {
				return err
			} else if ref.SawRepetitionOrFifty {
				scope = false
			}
		}
		if !scope {
			dirtyBefore = true
			labels = append(labels, "out-of-scope-game:"+gm.Kind)
			continue
		}
		inScope++
		if dirtyBefore {
			afterDirty++
		}
		where := fmt.Sprintf("game %d of %d on one engine (%s, Hash %d MB, %s, depth %d) at %s", i+1, len(c.Games), gm.Kind, c.Hash, c.Config, got.Depth, g.Cur().FEN())
		v, ok := refsearch.FromScore(got.Score)
		if !ok {
			return fmt.Errorf("%s: invalid score %v", where, got.Score)
		}
		if !sameValue(v, ref.Value) {
			plain := engine.New(ctx, "verif", "verif", s)
			_ = plain.Reset(ctx, gm.FEN)
			for _, mv := range gm.Moves {
				_ = plain.Move(ctx, mv)
			}
			p, _, _ := lastReport(plain, gm.Depth)
			return fmt.Errorf("%s: with the table the engine reports %v; a fresh engine without a table %v at depth %d; exhaustive value %v", where, got.Score, p.Score, p.Depth, ref.Value)
		}
		if ref.RootLegal > 0 && len(ref.RootMoves) > 0 {
			if len(got.Moves) == 0 {
				return fmt.Errorf("%s: no principal variation", where)
			}
			mv, ok := ref.RootMoves[bridge.KeyOfRepo(got.Moves[0])]
			if !ok || refsearch.Cmp(mv, ref.Value) != 0 {
				return fmt.Errorf("%s: principal variation starts with %s (worth %v), best is %v", where, bridge.Text(got.Moves[0]), mv, ref.Value)
			}
		}
		labels = append(labels, "in-scope-game:"+gm.Kind)
	}
	if afterDirty > 0 {
		labels = append(labels, "in-scope-after-out-of-scope-game")
	}
	stats.Case("C11/engine", stats.FP(fmt.Sprint(c)), inScope > 0 && len(c.Games) > 1, dedup(labels)...)
	stats.Note("C11/engine", "in_scope_analyses", int64(inScope))
	stats.Note("C11/engine", "in_scope_after_out_of_scope", int64(afterDirty))
	return nil
})

func genEngTTCase(t *rapid.T) engTTCase {
	base := genSearchCase(t, positionDeterminedConfigs())
	c := engTTCase{Config: base.Config, Param: base.Param, Hash: uint(rapid.SampledFrom([]int{1, 1, 2}).Draw(t, "hash"))}
	bg, err := gen2case(engGame{FEN: base.FEN, Moves: base.Moves}).Build()
	if err != nil {
		t.Fatalf("base case: %v", err)
	}
	cur := *bg.Cur()
	d := min(base.Depth, 4)
	n := rapid.IntRange(2, 4).Draw(t, "games")
	for i := 0; i < n; i++ {
		gm := engGame{Depth: max(1, d-rapid.IntRange(0, 1).Draw(t, "shallower"))}
		gm.Kind = rapid.SampledFrom([]string{"as-played", "clean", "clean", "high-clock", "high-clock", "noise"}).Draw(t, "kind")
		switch gm.Kind {
		case "as-played":
			gm.FEN, gm.Moves = base.FEN, base.Moves
		case "clean", "noise":
			st := cur
			st.Half = 0
			gm.FEN = st.FEN()
			if gm.Kind == "noise" {
				gm.Noise = uint(rapid.SampledFrom([]int{20, 100, 400}).Draw(t, "noise"))
			}
		case "high-clock":
			st := cur
			st.Half = 100 - rapid.IntRange(1, gm.Depth).Draw(t, "left")
			gm.FEN = st.FEN()
		}
		c.Games = append(c.Games, gm)
	}
	return c
}

func TestC11_engine(t *testing.T) {
	runRapid(t, "C11/engine", 3000, genEngTTCase, func(c engTTCase) error {
		stats.Sample("C11/engine", c)
		return checkC11Engine(c)
	})
}

func gen2case(gm engGame) gen.GameCase { return gen.GameCase{FEN: gm.FEN, Moves: gm.Moves} }
