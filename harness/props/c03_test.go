package props

import (
	"context"
	"errors"
	"fmt"
	"math"
	"testing"

	"github.com/herohde/morlock/pkg/board"
	"github.com/herohde/morlock/pkg/search"
	"pgregory.net/rapid"
	"verifharness/bridge"
	"verifharness/gen"
	"verifharness/oracle"
	"verifharness/refsearch"
	"verifharness/stats"
)

// searchCase: a root (set-up position + history), a search configuration and a depth.
type searchCase struct {
	FEN    string   `json:"fen"`
	Moves  []string `json:"moves"`
	Config string   `json:"config"`
	Param  int      `json:"param"` // branch limit for the plausible-move configuration
	Depth  int      `json:"depth"`
	// TableBytes > 0: the search gets a fresh transposition table of that size (only honoured
	// for position-determined configurations whose tree contains no repetition / fifty-move draw)
	TableBytes uint64 `json:"table_bytes,omitempty"`
}

// tableFor returns the table a single search of this case runs with.
func tableFor(c searchCase, cfg searchConfig, b *board.Board, g *oracle.Game, ref *refsearch.Result) (search.TranspositionTable, bool) {
	if c.TableBytes == 0 || !cfg.PositionDetermined || ref.SawRepetitionOrFifty || g.DrawEver() || b.Result().Outcome == board.Draw {
		return search.NoTranspositionTable{}, false
	}
	return search.NewTranspositionTable(context.Background(), c.TableBytes), true
}

// handBack compares what the board reports before and after a search (Unknown ~ Undecided;
// a truthful lazy adjudication of a root without legal moves is allowed).
func handBack(before snap, b *board.Board, rootHasLegal, rootInCheck bool) error {
	after := takeSnap(b)
	ignoreDrawn := false
	if !rootHasLegal {
		ignoreDrawn = true
		res := b.Result()
		if res.Reason == board.Checkmate && !rootInCheck || res.Reason == board.Stalemate && rootInCheck {
			return fmt.Errorf("root without legal moves adjudicated untruthfully: %v", res)
		}
	}
	if d := diffSnap(after, before, ignoreDrawn); d != "" {
		return fmt.Errorf("board not handed back in the state it was received in: %s", d)
	}
	return nil
}

// sameFuture plays every legal root move on forks of both boards and compares what they
// report (repetition counts and draw detection depend on hidden history state).
func sameFuture(searched, pristine *board.Board, root *oracle.Pos) error {
	for _, m := range root.Legal() {
		a, b := searched.Fork(), pristine.Fork()
		if _, err := pushOracleMove(a, m); err != nil {
			return fmt.Errorf("after the search: %v", err)
		}
		if _, err := pushOracleMove(b, m); err != nil {
			return err
		}
		if d := diffSnap(takeSnap(a), takeSnap(b), false); d != "" {
			return fmt.Errorf("after the search, playing %v reports %s (compared with a board that was never searched)", m, d)
		}
	}
	return nil
}

func valueOf(sc interface{ String() string }) string { return sc.String() }

// checkPV validates a principal variation against the reference result.
func checkPV(pv []board.Move, root *oracle.Game, ref *refsearch.Result, depth int, rootValue refsearch.Value) error {
	if len(pv) == 0 {
		if ref.RootLegal > 0 && len(ref.RootMoves) > 0 {
			return fmt.Errorf("empty principal variation although the root has %d legal moves", ref.RootLegal)
		}
		return nil
	}
	if len(pv) > depth {
		return fmt.Errorf("principal variation %v is longer than the depth %d", pvText(pv), depth)
	}
	p := root.Cur().Pos
	for i, m := range pv {
		om, ok := p.FindMove(bridge.Text(m))
		if !ok {
			return fmt.Errorf("principal variation %v: move %d (%s) is not legal in %s", pvText(pv), i, bridge.Text(m), p.KeyFEN())
		}
		p = p.Make(om)
	}
	first := bridge.KeyOfRepo(pv[0])
	v, ok := ref.RootMoves[first]
	if !ok {
		return fmt.Errorf("first move %s of the principal variation is not an explored root move", bridge.Text(pv[0]))
	}
	if refsearch.Cmp(v, rootValue) != 0 {
		return fmt.Errorf("first move %s of the principal variation is worth %v, the root value is %v", bridge.Text(pv[0]), v, rootValue)
	}
	return nil
}

func pvText(pv []board.Move) []string {
	var ret []string
	for _, m := range pv {
		ret = append(ret, bridge.Text(m))
	}
	return ret
}

// sameValue: equality under the specification order, heuristic values exactly.
func sameValue(a, b refsearch.Value) bool {
	if a.Class == refsearch.Heuristic && b.Class == refsearch.Heuristic {
		return a.H == b.H || (math.IsNaN(float64(a.H)) && math.IsNaN(float64(b.H)))
	}
	return refsearch.Cmp(a, b) == 0
}

var errDiscard = errors.New("discarded")

// setupSearch builds the root for a search case. Returns errDiscard for sticky-draw roots.
func setupSearch(c searchCase) (*board.Board, *oracle.Game, searchConfig, error) {
	cfg, err := findConfig(c.Config)
	if err != nil {
		return nil, nil, cfg, err
	}
	b, g, err := buildBoard(zt0, gen.GameCase{FEN: c.FEN, Moves: c.Moves})
	if err != nil {
		return nil, nil, cfg, err
	}
	// Roots that carry a draw flag (a rule holds now, or fired earlier in the game) are searched
	// like any other root: a claimable draw does not relieve the engine from moving.
	return b, g, cfg, nil
}

var checkC03 = def("C03/minimax", func(c searchCase) error {
	b, g, cfg, err := setupSearch(c)
	if err == errDiscard {
		stats.Case("C03/minimax", 0, false, "discarded-sticky-draw-root")
		return nil
	}
	if err != nil {
		return err
	}
	s, rcfg := cfg.make(c.Param)
	rb := b.Fork()
	prepareRef(&rcfg, rb)
	rcfg.Budget = 100_000
	if cfg.Quiescence {
		rcfg.Budget = 25_000 // capture trees of busy middlegames explode in an exhaustive reference: discard fast
	}
	ref, err := refsearch.Search(rcfg, g.Clone(), rb, c.Depth)
	if err == refsearch.ErrBudget {
		stats.Case("C03/minimax", 0, false, "discarded-over-budget", fmt.Sprintf("over-budget:%s:d%d", c.Config, c.Depth))
		return nil
	}
	if err != nil {
		return err
	}
	sb := b.Fork()
	before := takeSnap(sb)
	tt, withTable := tableFor(c, cfg, b, g, ref)
	nodes, score, pv, serr := s.Search(context.Background(), &search.Context{TT: tt}, sb, c.Depth)
	if serr != nil {
		return fmt.Errorf("search failed: %v", serr)
	}
	_ = nodes
	got, ok := refsearch.FromScore(score)
	if !ok {
		return fmt.Errorf("search returned the invalid score %v", score)
	}
	where := fmt.Sprintf("%s depth %d at %s (history %d plies)", c.Config, c.Depth, g.Cur().FEN(), len(c.Moves))
	if withTable {
		where += fmt.Sprintf(", fresh table of %d bytes", c.TableBytes)
	}
	if !sameValue(got, ref.Value) {
		return fmt.Errorf("%s: search returned %v, exhaustive minimax over the same moves and leaves gives %v", where, got, ref.Value)
	}
	if err := checkPV(pv, g, ref, c.Depth, ref.Value); err != nil {
		return fmt.Errorf("%s: %v", where, err)
	}
	root := &g.Cur().Pos
	if err := handBack(before, sb, ref.RootLegal > 0, root.InCheck(root.White)); err != nil {
		return fmt.Errorf("%s: %v", where, err)
	}
	if ref.RootLegal > 0 {
		if err := sameFuture(sb, b, root); err != nil {
			return fmt.Errorf("%s: %v", where, err)
		}
	}
	var labels []string
	labels = append(labels, "cfg:"+c.Config, fmt.Sprintf("depth-%d", c.Depth))
	nt := c.Depth >= 3
	if ref.SawMate {
		labels, nt = append(labels, "mate-in-tree"), true
	}
	if ref.SawStalemate {
		labels, nt = append(labels, "stalemate-in-tree"), true
	}
	if ref.SawStalemateInQuiescence {
		labels = append(labels, "stalemate-in-quiescence")
	}
	if ref.SawDraw {
		labels, nt = append(labels, "draw-in-tree"), true
	}
	if ref.RootDrawn {
		labels = append(labels, "root-drawn-now")
	}
	if b.Result().Outcome == board.Draw && !ref.RootDrawn {
		labels = append(labels, "root-draw-flag-from-earlier")
	}
	if ref.Value.Class != refsearch.Heuristic {
		labels, nt = append(labels, "mate-valued-root"), true
		if ref.Value.Dist >= 4 {
			labels = append(labels, "deep-mate")
		}
	}
	if len(c.Moves) > 0 {
		labels = append(labels, "with-history")
	}
	if withTable {
		labels = append(labels, "with-fresh-table")
	}
	stats.Case("C03/minimax", stats.FP(c.FEN, fmt.Sprint(c.Moves), c.Config, c.Param, c.Depth, c.TableBytes), nt, labels...)
	stats.Note("C03/minimax", "reference_nodes", int64(ref.Nodes))
	return nil
})

// matingEnding draws a sparse ending in which mates are near: K + (Q|R|two pieces) v K with
// the defending king on or near the edge.
func matingEnding(t *rapid.T) oracle.State {
	for {
		var p oracle.Pos
		p.EP = -1
		edge := []int{}
		inner := rapid.IntRange(0, 5).Draw(t, "inner") == 0
		for s := 0; s < 64; s++ {
			f, r := oracle.File(s), oracle.Rank(s)
			if f == 0 || f == 7 || r == 0 || r == 7 || (inner && (f == 1 || f == 6 || r == 1 || r == 6)) {
				edge = append(edge, s)
			}
		}
		dk := edge[rapid.IntRange(0, len(edge)-1).Draw(t, "dk")]
		// attacking king two files/ranks away
		var cands []int
		for s := 0; s < 64; s++ {
			df, dr := oracle.File(s)-oracle.File(dk), oracle.Rank(s)-oracle.Rank(dk)
			if df < 0 {
				df = -df
			}
			if dr < 0 {
				dr = -dr
			}
			if (df == 2 && dr <= 2) || (dr == 2 && df <= 2) {
				cands = append(cands, s)
			}
		}
		ak := cands[rapid.IntRange(0, len(cands)-1).Draw(t, "ak")]
		attackerWhite := rapid.Bool().Draw(t, "attackerwhite")
		sg := int8(1)
		if !attackerWhite {
			sg = -1
		}
		p.Sq[ak] = sg * oracle.King
		p.Sq[dk] = -sg * oracle.King
		npieces := rapid.IntRange(1, 2).Draw(t, "npieces")
		for i := 0; i < npieces; i++ {
			var empty []int
			for s := 0; s < 64; s++ {
				if p.Sq[s] == 0 {
					empty = append(empty, s)
				}
			}
			s := empty[rapid.IntRange(0, len(empty)-1).Draw(t, "psq")]
			p.Sq[s] = sg * rapid.SampledFrom([]int8{oracle.Rook, oracle.Queen, oracle.Rook, oracle.Queen, oracle.Bishop, oracle.Knight}).Draw(t, "pk")
		}
		p.White = rapid.Bool().Draw(t, "stm")
		if p.InCheck(!p.White) {
			p.White = !p.White
			if p.InCheck(!p.White) {
				continue
			}
		}
		return oracle.State{Pos: p, Half: rapid.SampledFrom([]int{0, 0, 10, 97}).Draw(t, "half"), Full: 40}
	}
}

// blockadeEnding draws a position with locked pawn pairs and few pieces: kings get boxed in
// by their own pawns, so stalemates occur with the stalemated side ahead in material.
func blockadeEnding(t *rapid.T) oracle.State { return blockadeEndingN(t, 3) }

func blockadeEndingN(t *rapid.T, maxExtras int) oracle.State {
	for try := 0; ; try++ {
		var p oracle.Pos
		p.EP = -1
		npairs := rapid.IntRange(2, 5).Draw(t, "pairs")
		for i := 0; i < npairs; i++ {
			f := rapid.IntRange(0, 7).Draw(t, "file")
			r := rapid.IntRange(1, 5).Draw(t, "rank")
			if p.Sq[oracle.Sq(f, r)] != 0 || p.Sq[oracle.Sq(f, r+1)] != 0 {
				continue
			}
			p.Sq[oracle.Sq(f, r)] = oracle.Pawn
			p.Sq[oracle.Sq(f, r+1)] = -oracle.Pawn
		}
		place := func(pc int8, cands []int) bool {
			var free []int
			for _, s := range cands {
				if p.Sq[s] == 0 {
					free = append(free, s)
				}
			}
			if len(free) == 0 {
				return false
			}
			p.Sq[free[rapid.IntRange(0, len(free)-1).Draw(t, "sq")]] = pc
			return true
		}
		var edge, all []int
		for s := 0; s < 64; s++ {
			all = append(all, s)
			if f, r := oracle.File(s), oracle.Rank(s); f == 0 || f == 7 || r == 0 || r == 7 {
				edge = append(edge, s)
			}
		}
		if !place(oracle.King, edge) || !place(-oracle.King, edge) {
			continue
		}
		wk, bk := p.KingSq(true), p.KingSq(false)
		if df, dr := oracle.File(wk)-oracle.File(bk), oracle.Rank(wk)-oracle.Rank(bk); df >= -1 && df <= 1 && dr >= -1 && dr <= 1 {
			continue
		}
		for i, n := 0, rapid.IntRange(0, maxExtras).Draw(t, "extras"); i < n; i++ {
			pc := rapid.SampledFrom([]int8{oracle.Knight, oracle.Bishop, oracle.Queen, oracle.Rook, oracle.Pawn}).Draw(t, "pc")
			if rapid.Bool().Draw(t, "black") {
				pc = -pc
			}
			cands := all
			if pc == oracle.Pawn || pc == -oracle.Pawn {
				cands = nil
				for _, s := range all {
					if r := oracle.Rank(s); r >= 1 && r <= 6 {
						cands = append(cands, s)
					}
				}
			}
			place(pc, cands)
		}
		p.White = rapid.Bool().Draw(t, "stm")
		if p.InCheck(!p.White) {
			p.White = !p.White
			if p.InCheck(!p.White) {
				continue
			}
		}
		return oracle.State{Pos: p, Half: 0, Full: 30}
	}
}

// estimateDepth returns the largest depth whose exhaustive tree is expected to stay within
// budget, from the mobility of both sides at the root.
func estimateDepth(g *oracle.Game, cfg searchConfig, maxDepth int, budget float64) int {
	p := g.Cur().Pos
	l1 := float64(len(p.Legal()) + 1)
	q := p
	q.White = !q.White
	q.EP = -1
	l2 := float64(len(q.PseudoLegal()) + 1)
	if cfg.Heavy {
		budget /= 25
	}
	if cfg.Quiescence {
		budget /= 6
	}
	d, nodes := 0, 1.0
	for d < maxDepth {
		if d%2 == 0 {
			nodes *= l1
		} else {
			nodes *= l2
		}
		if nodes > budget {
			break
		}
		d++
	}
	if d < 1 {
		d = 1
	}
	return d
}

var lightConfigs = []string{"material", "synth", "synth-skipunder"}

func genSearchCase(t *rapid.T, configs []searchConfig) searchCase {
	cfg := configs[rapid.IntRange(0, len(configs)-1).Draw(t, "config")]
	var gc gen.GameCase
	var g *oracle.Game
	mating := false
	rootkind := rapid.IntRange(0, 9).Draw(t, "rootkind")
	if cfg.Quiescence && rapid.IntRange(0, 2).Draw(t, "stalematerich") == 0 {
		// quiescence leaves must meet stalemates and mates at the horizon: K+Q(+piece) v K near the edge
		rootkind = 0
	}
	switch rootkind {
	case 0, 1, 2: // mating endings (or locked-pawn endings), possibly with a little history
		st := matingEnding(t)
		if rapid.IntRange(0, 2).Draw(t, "blockade") == 0 {
			st = blockadeEnding(t)
		}
		gc, g = gen.Play(t, st, 4, gen.Policy{0, 0, 0, 0, 1, 0, 0, 6, 0, 6})
		mating = true
		if !cfg.Quiescence && rapid.IntRange(0, 3).Draw(t, "lightcfg") > 0 {
			for _, c := range configs {
				if c.Name == lightConfigs[rapid.IntRange(0, len(lightConfigs)-1).Draw(t, "light")] {
					cfg = c
				}
			}
		}
	case 3, 4: // shuffled histories: near repetitions, high clocks
		gc, g = gen.History(t, 40)
	default:
		gc, g = gen.Game(t, 40)
	}
	if cfg.Quiescence && !mating {
		// exhaustive capture trees need sparse boards: prefer positions after capture-happy play
		n := 0
		for _, pc := range g.Cur().Pos.Sq {
			if pc != 0 {
				n++
			}
		}
		if n > 14 {
			gc, g = gen.Play(t, gen.Start(t), 90, gen.Policy{8, 2, 4, 4, 2, 1, 8, 0, 1, 1})
			n = 0
			for _, pc := range g.Cur().Pos.Sq {
				if pc != 0 {
					n++
				}
			}
			if n > 14 { // still busy: use the same evaluator without the capture search
				for _, c := range configs {
					if c.Name == "synth" || c.Name == "material" {
						cfg = c
						break
					}
				}
			}
		}
	}
	c := searchCase{FEN: gc.FEN, Moves: gc.Moves, Config: cfg.Name, Param: rapid.IntRange(1, 9).Draw(t, "param")}
	if rapid.IntRange(0, 2).Draw(t, "withtable") == 0 {
		c.TableBytes = rapid.SampledFrom([]uint64{32, 64, 4096, 1 << 20}).Draw(t, "tablebytes")
	}
	d := estimateDepth(g, cfg, 6, 25_000)
	if mating && d > 2 {
		// mate-distance arithmetic lives at the deep end
		c.Depth = d - rapid.SampledFrom([]int{0, 0, 0, 1, 1, 2}).Draw(t, "shallower")
	} else {
		c.Depth = rapid.IntRange(1, d).Draw(t, "depth")
	}
	return c
}

func TestC03_minimax(t *testing.T) {
	runRapid(t, "C03/minimax", 30000, func(t *rapid.T) searchCase {
		return genSearchCase(t, abConfigs)
	}, func(c searchCase) error {
		stats.Sample("C03/minimax", c)
		return checkC03(c)
	})
}

// TestC03_horizon aims the same oracle at the search horizon of quiescence configurations:
// tiny locked-pawn endings, depth 1-3, where a stalemate or mate sits exactly on a leaf and
// the side delivering it has few alternatives (so that the leaf's value decides the root).
func TestC03_horizon(t *testing.T) {
	var quiet []searchConfig
	for _, c := range abConfigs {
		if c.Quiescence && !c.Heavy {
			quiet = append(quiet, c)
		}
	}
	runRapid(t, "C03/minimax", 40000, func(t *rapid.T) searchCase {
		cfg := quiet[rapid.IntRange(0, len(quiet)-1).Draw(t, "config")]
		st := blockadeEndingN(t, rapid.SampledFrom([]int{0, 0, 0, 1, 2}).Draw(t, "maxextras"))
		gc, _ := gen.Play(t, st, 3, gen.Policy{1, 0, 0, 0, 1, 0, 0, 1, 1, 4})
		return searchCase{FEN: gc.FEN, Moves: gc.Moves, Config: cfg.Name, Param: 1, Depth: rapid.IntRange(1, 3).Draw(t, "depth")}
	}, func(c searchCase) error {
		return checkC03(c)
	})
}
