package props

import (
	"math"
	"context"
	"fmt"
	"testing"
	"time"

	"github.com/herohde/morlock/pkg/board"
	"github.com/herohde/morlock/pkg/engine"
	"github.com/herohde/morlock/pkg/eval"
	"github.com/herohde/morlock/pkg/search"
	"github.com/herohde/morlock/pkg/search/searchctl"
	"github.com/seekerror/stdlib/pkg/lang"
	"pgregory.net/rapid"
	"verifharness/gen"
	"verifharness/stats"
)

// iterCase: a root and configuration, a depth limit (0 = none), how many iterations the
// case watches, where (if anywhere) it halts, and through which API.
type iterCase struct {
	searchCase        // Depth = depth limit, 0 = no limit
	Cap        int    `json:"cap"`     // watch iterations 1..Cap; a stream still open at Cap+1 is halted there
	HaltAt     int    `json:"halt_at"` // halt while this iteration (>= 2) is held at the gate; 0 = do not halt early
	ViaEngine  bool   `json:"via_engine"`
	Ungated    bool   `json:"ungated"`  // no gate: halt after DelayUS microseconds of real time instead
	DelayUS    int    `json:"delay_us"` //
	// EngineDefault > 0 (engine path only): the engine's default depth option is this value while
	// the analysis itself asks for Depth (0 = explicitly no limit): the per-search option wins.
	EngineDefault int `json:"engine_default_depth,omitempty"`
	// ClockMS > 0: the analysis runs under a time control with that much time for both sides
	// (generous: hours; it never expires within a case, but the option is set).
	ClockMS int64 `json:"clock_ms,omitempty"`
}

type directResult struct {
	score eval.Score
	pv    []board.Move
}

const liveness = 30 * time.Second

func samePV(a, b []board.Move) bool {
	if len(a) != len(b) {
		return false
	}
	for i := range a {
		if !a[i].Equals(b[i]) {
			return false
		}
	}
	return true
}

var checkC15 = def("C15/iterative", func(c iterCase) error {
	b, g, cfg, err := setupSearch(c.searchCase)
	if err == errDiscard {
		stats.Case("C15/iterative", 0, false, "discarded-sticky-draw-root")
		return nil
	}
	if err != nil {
		return err
	}
	ctx := context.Background()
	cap := max(1, c.Cap)
	limit := c.Depth
	// what a direct fixed-depth search returns for each depth (separately constructed search object)
	direct := map[int]directResult{}
	end := 0 // depth at which the stream must end by itself (0 = it does not, within cap)
	for k := 1; k <= cap+1; k++ {
		s, _ := cfg.make(c.Param)
		_, score, pv, err := s.Search(ctx, search.EmptyContext, b.Fork(), k)
		if err != nil {
			return fmt.Errorf("direct search depth %d: %v", k, err)
		}
		direct[k] = directResult{score, pv}
		if end == 0 {
			if md, ok := score.MateDistance(); ok && int(md) <= k {
				end = k
			} else if limit > 0 && k == limit {
				end = k
			}
		}
	}
	inner, _ := cfg.make(c.Param)
	holdFrom := 2
	if c.Ungated {
		holdFrom = 0
	} else if c.HaltAt == 1 {
		holdFrom = 1 // hold the very first iteration: a halt requested now must wait for it
	}
	gs := newGatedSearch(inner, holdFrom)

	// launch
	var out <-chan search.PV
	var halt func() search.PV
	opt := searchctl.Options{}
	if limit > 0 {
		opt.DepthLimit = lang.Some(uint(limit))
	}
	if c.ClockMS > 0 {
		opt.TimeControl = lang.Some(searchctl.TimeControl{White: time.Duration(c.ClockMS) * time.Millisecond, Black: time.Duration(c.ClockMS) * time.Millisecond})
	}
	if c.ViaEngine {
		eopts := engine.Options{}
		if c.EngineDefault > 0 {
			eopts.Depth = uint(c.EngineDefault)
			opt.DepthLimit = lang.Some(uint(limit)) // Some(0) = explicitly unlimited
		} else if limit > 0 && c.Param%2 == 0 {
			// default depth option of the engine instead of a per-search limit
			eopts.Depth, opt = uint(limit), searchctl.Options{TimeControl: opt.TimeControl}
		}
		e := engine.New(ctx, "verif", "verif", gs, engine.WithOptions(eopts))
		if err := e.Reset(ctx, c.FEN); err != nil {
			return err
		}
		for _, mv := range c.Moves {
			if err := e.Move(ctx, mv); err != nil {
				return err
			}
		}
		beforeFEN, before := e.Position(), takeSnap(e.Board())
		o, err := e.Analyze(ctx, opt)
		if err != nil {
			return fmt.Errorf("Analyze: %v", err)
		}
		out = o
		halt = func() search.PV { pv, _ := e.Halt(ctx); return pv }
		defer func() {
			// analysing never alters the engine's own game
			if e.Position() != beforeFEN || diffSnap(takeSnap(e.Board()), before, false) != "" {
				panic(fmt.Sprintf("analysis changed the engine's game: %s -> %s", beforeFEN, e.Position()))
			}
		}()
	} else {
		it := &searchctl.Iterative{Root: gs}
		h, o := it.Launch(ctx, b.Fork(), search.NoTranspositionTable{}, eval.Random{}, opt)
		out, halt = o, h.Halt
	}

	where := fmt.Sprintf("%s at %s (history %d plies), limit %d", c.Config, g.Cur().FEN(), len(c.Moves), limit)
	var got []search.PV
	maxSeen := 0
	judgePV := func(pv search.PV, what string) error {
		d, ok := direct[pv.Depth]
		if !ok && c.Ungated {
			return nil // an ungated analysis may run ahead of the depths computed directly
		}
		if !ok {
			return fmt.Errorf("%s: %s reports depth %d, outside the watched range", where, what, pv.Depth)
		}
		if pv.Score != d.score {
			return fmt.Errorf("%s: %s for depth %d has score %v, a direct depth-%d search returns %v", where, what, pv.Depth, pv.Score, pv.Depth, d.score)
		}
		if !samePV(pv.Moves, d.pv) {
			return fmt.Errorf("%s: %s for depth %d has variation %v, a direct search returns %v", where, what, pv.Depth, pvText(pv.Moves), pvText(d.pv))
		}
		return nil
	}
	recv := func(pv search.PV) error {
		if pv.Depth <= maxSeen {
			return fmt.Errorf("%s: depth %d reported after depth %d", where, pv.Depth, maxSeen)
		}
		if !c.Ungated && pv.Depth != maxSeen+1 {
			return fmt.Errorf("%s: depth %d reported after depth %d (a depth is missing)", where, pv.Depth, maxSeen)
		}
		maxSeen = pv.Depth
		got = append(got, pv)
		return judgePV(pv, "the analysis")
	}
	drain := func() (closed bool, err error) {
		for {
			select {
			case pv, ok := <-out:
				if !ok {
					return true, nil
				}
				if err := recv(pv); err != nil {
					return false, err
				}
			default:
				return false, nil
			}
		}
	}
	var haltPV *search.PV
	seenBeforeHalt := 0
	doHalt := func() error {
		seenBeforeHalt = maxSeen
		pv := halt()
		haltPV = &pv
		if pv.Depth < 1 {
			return fmt.Errorf("%s: Halt returned before depth 1 was complete (%v)", where, pv)
		}
		if pv.Depth < seenBeforeHalt {
			return fmt.Errorf("%s: Halt returned depth %d although depth %d had been reported before the halt was requested", where, pv.Depth, seenBeforeHalt)
		}
		if pv.Depth > cap+1 {
			return nil // ran ahead of what we computed directly (ungated only)
		}
		if err := judgePV(pv, "Halt()"); err != nil {
			return err
		}
		if len(pv.Moves) == 0 && g.Cur().Pos.HasLegal() && !g.DrawNow() {
			return fmt.Errorf("%s: Halt returned no moves although the root has legal moves", where)
		}
		return nil
	}

	endedBy := ""
	closed := false
	if !c.Ungated && c.HaltAt == 1 {
		// Halt is requested while depth 1 is still pending: it must not return before that
		// iteration is complete, and must then return it.
		var first gateEvent
		select {
		case first = <-gs.entering:
		case <-time.After(liveness):
			return fmt.Errorf("%s: the analysis never started its first iteration", where)
		}
		res := make(chan search.PV, 1)
		go func() { res <- halt() }()
		select {
		case pv := <-res:
			close(first.release)
			return fmt.Errorf("%s: Halt returned %v while depth 1 was still being searched", where, pv)
		case <-time.After(15 * time.Millisecond):
		}
		close(first.release)
		select {
		case pv := <-res:
			haltPV = &pv
			if pv.Depth < 1 {
				return fmt.Errorf("%s: Halt requested during depth 1 returned before depth 1 was complete (%v)", where, pv)
			}
			if err := judgePV(pv, "Halt()"); err != nil {
				return err
			}
			if len(pv.Moves) == 0 && g.Cur().Pos.HasLegal() {
				return fmt.Errorf("%s: Halt requested during depth 1 returned no moves although the root has legal moves", where)
			}
		case <-time.After(liveness):
			return fmt.Errorf("%s: Halt requested during depth 1 never returned", where)
		}
		endedBy = "halt-during-depth-1"
	}
	if c.Ungated {
		if c.DelayUS > 0 {
			time.Sleep(time.Duration(c.DelayUS) * time.Microsecond)
		}
		if _, err := drain(); err != nil {
			return err
		}
		if err := doHalt(); err != nil {
			return err
		}
		endedBy = "halt-ungated"
	}
	timeout := time.After(liveness)
	for !closed {
		select {
		case ev := <-gs.entering:
			if cl, err := drain(); err != nil {
				return err
			} else if cl {
				closed = true
				close(ev.release)
				break
			}
			// iteration ev.depth is about to run: depth ev.depth-1 must have been reported
			if maxSeen != ev.depth-1 && haltPV == nil {
				return fmt.Errorf("%s: iteration %d starts but depth %d has not been reported (last reported %d)", where, ev.depth, ev.depth-1, maxSeen)
			}
			if end > 0 && ev.depth > end && haltPV == nil {
				close(ev.release)
				return fmt.Errorf("%s: iteration %d starts although the analysis should have ended by itself at depth %d (score %v)", where, ev.depth, end, direct[end].score)
			}
			if haltPV == nil && (ev.depth == c.HaltAt || ev.depth > cap) {
				if err := doHalt(); err != nil {
					close(ev.release)
					return err
				}
				endedBy = "halt"
				// halting means the pending iteration is told to stop: its context is cancelled
				select {
				case <-ev.ctx.Done():
				case <-time.After(5 * time.Second):
					close(ev.release)
					return fmt.Errorf("%s: Halt() has returned, but the context of the pending iteration %d is still not cancelled 5 s later (the search would run on)", where, ev.depth)
				}
			}
			close(ev.release)
		case pv, ok := <-out:
			if !ok {
				closed = true
				break
			}
			if err := recv(pv); err != nil {
				return err
			}
		case <-timeout:
			return fmt.Errorf("%s: analysis neither progressed nor ended within %v", where, liveness)
		}
	}
	// release anything still waiting (a search that entered the gate while we were leaving)
	for {
		select {
		case ev := <-gs.entering:
			close(ev.release)
			continue
		default:
		}
		break
	}
	if haltPV == nil {
		// ended by itself: exactly at 'end'
		if end == 0 {
			return fmt.Errorf("%s: the analysis ended by itself after depth %d although neither the limit nor a forced mate was reached", where, maxSeen)
		}
		if maxSeen != end {
			return fmt.Errorf("%s: the analysis ended by itself after depth %d, it should end exactly at depth %d", where, maxSeen, end)
		}
		if limit > 0 && end == limit {
			endedBy = "limit"
		} else {
			endedBy = "mate"
		}
	}
	labels := []string{"cfg:" + c.Config, "ended-by:" + endedBy}
	if c.ViaEngine {
		labels = append(labels, "via-engine")
	}
	if c.EngineDefault > 0 {
		labels = append(labels, "per-search-limit-overrides-engine-default")
	}
	if c.ClockMS > 0 {
		labels = append(labels, "time-control-option-set")
	}
	if !g.Cur().Pos.HasLegal() {
		labels = append(labels, "root-without-moves")
	}
	stats.Case("C15/iterative", stats.FP(c.FEN, fmt.Sprint(c.Moves), c.Config, c.Param, c.Depth, c.Cap, c.HaltAt, c.ViaEngine, c.Ungated, c.EngineDefault, c.ClockMS), true, labels...)
	stats.Note("C15/iterative", "iterations_compared", int64(len(got)))
	return nil
})

func genIterCase(t *rapid.T) iterCase {
	sc := genSearchCase(t, abConfigs)
	cfg, _ := findConfig(sc.Config)
	g, err := gen.GameCase{FEN: sc.FEN, Moves: sc.Moves}.Build()
	cap := 2
	if err == nil {
		cap = max(1, estimateDepth(g, cfg, 6, 150_000))
	}
	c := iterCase{searchCase: sc, Cap: cap}
	switch rapid.IntRange(0, 3).Draw(t, "limitkind") {
	case 0:
		c.Depth = 0 // no limit: must be halted
	default:
		c.Depth = rapid.IntRange(1, cap).Draw(t, "limit")
	}
	if rapid.IntRange(0, 2).Draw(t, "halt") == 0 {
		c.HaltAt = rapid.IntRange(1, max(1, cap)).Draw(t, "haltat")
	}
	c.ViaEngine = rapid.Bool().Draw(t, "viaengine")
	if c.ViaEngine && rapid.IntRange(0, 3).Draw(t, "enginedefault") == 0 {
		c.EngineDefault = rapid.IntRange(1, max(1, cap)).Draw(t, "defaultdepth")
	}
	if rapid.IntRange(0, 3).Draw(t, "clock") == 0 {
		c.ClockMS = int64(rapid.SampledFrom([]int{3_600_000, 36_000_000}).Draw(t, "clockms"))
	}
	if rapid.IntRange(0, 5).Draw(t, "ungated") == 0 {
		c.Ungated = true
		c.DelayUS = rapid.SampledFrom([]int{0, 1, 20, 200, 2000}).Draw(t, "delay")
	}
	return c
}

func TestC15_iterative(t *testing.T) {
	runRapid(t, "C15/iterative", 8000, genIterCase, func(c iterCase) error {
		stats.Sample("C15/iterative", c)
		return checkC15(c)
	})
}

// timeCase: time-control arithmetic.
type timeCase struct {
	WhiteMS, BlackMS int64
	Moves            int
	White            bool
}

var checkC15Time = def("C15/timecontrol", func(c timeCase) error {
	tc := searchctl.TimeControl{White: time.Duration(c.WhiteMS) * time.Millisecond, Black: time.Duration(c.BlackMS) * time.Millisecond, Moves: c.Moves}
	col := board.Black
	left := tc.Black
	if c.White {
		col, left = board.White, tc.White
	}
	soft, hard := tc.Limits(col)
	if hard > left {
		return fmt.Errorf("Limits(%v) with %v left and %d moves to go grants a hard limit of %v", col, left, c.Moves, hard)
	}
	if soft < 0 || hard < 0 || soft > hard {
		return fmt.Errorf("Limits(%v) with %v left and %d moves to go: soft %v hard %v", col, left, c.Moves, soft, hard)
	}
	stats.Case("C15/timecontrol", stats.FP(c.WhiteMS, c.BlackMS, c.Moves, c.White), c.Moves != 0 || left < time.Second, fmt.Sprintf("movestogo-sign:%d", sign3(c.Moves)))
	return nil
})

func sign3(n int) int {
	switch {
	case n < 0:
		return -1
	case n > 0:
		return 1
	}
	return 0
}

func TestC15_timecontrol(t *testing.T) {
	runRapid(t, "C15/timecontrol", 40000, func(t *rapid.T) timeCase {
		ms := func(l string) int64 {
			switch rapid.IntRange(0, 3).Draw(t, l+"k") {
			case 0:
				return int64(rapid.IntRange(0, 50).Draw(t, l))
			case 1:
				return int64(rapid.IntRange(0, 60000).Draw(t, l))
			default:
				return rapid.Int64Range(0, 24*3600*1000).Draw(t, l)
			}
		}
		return timeCase{WhiteMS: ms("w"), BlackMS: ms("b"), Moves: drawMovesToGo(t), White: rapid.Bool().Draw(t, "white")}
	}, func(c timeCase) error {
		stats.Sample("C15/timecontrol", c)
		return checkC15Time(c)
	})
}

// drawMovesToGo: whatever integer a "go ... movestogo N" line can carry (the driver parses any
// int): the usual small values, and the boundaries of the integer widths.
func drawMovesToGo(t *rapid.T) int {
	switch rapid.IntRange(0, 5).Draw(t, "moveskind") {
	case 0, 1, 2:
		return rapid.SampledFrom([]int{-1, 0, 0, 1, 1, 2, 3, 10, 40, 10000}).Draw(t, "moves")
	case 3:
		return rapid.SampledFrom([]int{math.MaxInt32 - 1, math.MaxInt32, math.MaxInt32 + 1, 1<<62 - 2, 1<<62 - 1, 1 << 62, math.MaxInt64 - 1, math.MaxInt64, math.MinInt64, math.MinInt64 + 1, -math.MaxInt32}).Draw(t, "edge")
	default:
		return rapid.Int().Draw(t, "any")
	}
}
