package props

import (
	"fmt"
	"testing"

	"github.com/herohde/morlock/pkg/board"
	"github.com/herohde/morlock/pkg/board/fen"
	"pgregory.net/rapid"
	"verifharness/bridge"
	"verifharness/gen"
	"verifharness/oracle"
	"verifharness/stats"
)

// successorAgrees judges one (position, legal move) pair at the Position level.
func successorAgrees(p *board.Position, turn board.Color, o *oracle.Pos, om oracle.Move) (*board.Position, error) {
	rm, ok := bridge.FindRepoMove(p, turn, om)
	if !ok {
		return nil, fmt.Errorf("legal move %v not generated in %v", om, o.KeyFEN())
	}
	// the move as a player names it (coordinate text): among the generated moves the text picks
	// out this move and no other, whichever side of Equals the named move is on (the engine and
	// the drivers find the move to play that way)
	if named, err := board.ParseMove(om.String()); err != nil {
		return nil, fmt.Errorf("text %q of the legal move %v does not parse: %v", om.String(), om, err)
	} else {
		for _, m := range p.PseudoLegalMoves(turn) {
			same := bridge.KeyOfRepo(m) == bridge.KeyOfRepo(rm)
			if named.Equals(m) != same || m.Equals(named) != same {
				return nil, fmt.Errorf("in %v the text %q names the move %v, but compared with the generated move %v: named.Equals=%v, generated.Equals=%v", o.KeyFEN(), om.String(), om, m, named.Equals(m), m.Equals(named))
			}
		}
	}
	// ... and a text that names no move of the game names none: the same squares with a promotion
	// piece the move does not have (or without the one it has)
	for _, wrong := range wrongTexts(om) {
		named, err := board.ParseMove(wrong)
		if err != nil {
			continue
		}
		for _, m := range p.PseudoLegalMoves(turn) {
			if bridge.Text(m) != wrong && (named.Equals(m) || m.Equals(named)) {
				return nil, fmt.Errorf("in %v the text %q (not the text of %v) equals the generated move %v: named.Equals=%v, generated.Equals=%v", o.KeyFEN(), wrong, m, m, named.Equals(m), m.Equals(named))
			}
		}
	}
	before := *p
	next, ok := p.Move(rm)
	if !ok || next == nil {
		return nil, fmt.Errorf("legal move %v refused in %v", om, o.KeyFEN())
	}
	if *p != before {
		return nil, fmt.Errorf("Position.Move(%v) changed the position moved from (%v)", om, o.KeyFEN())
	}
	if next == p {
		return nil, fmt.Errorf("Position.Move(%v) returned the receiver itself", om)
	}
	want := o.Make(om)
	got := bridge.OPos(next, turn.Opponent())
	if got != want {
		return nil, fmt.Errorf("after %v (%v) in %v: engine has %v, rules prescribe %v", om, om.Kind, o.KeyFEN(), got.KeyFEN(), want.KeyFEN())
	}
	// the FEN encoder sees the same successor
	st := oracle.State{Pos: want, Half: 7, Full: 9}
	if f := fen.Encode(next, turn.Opponent(), 7, 9); f != st.FEN() {
		return nil, fmt.Errorf("after %v in %v: fen.Encode gives %q, rules prescribe %q", om, o.KeyFEN(), f, st.FEN())
	}
	if err := viewsAgree(next); err != nil {
		return nil, fmt.Errorf("after %v in %v: %v", om, o.KeyFEN(), err)
	}
	return next, nil
}

func moveLabels(o *oracle.Pos, om oracle.Move) (labels []string, special bool) {
	n := o.Make(om)
	switch om.Kind {
	case oracle.CastleK, oracle.CastleQ:
		labels = append(labels, "castle")
	case oracle.EnPassant:
		labels = append(labels, "ep")
	case oracle.Promo:
		labels = append(labels, "promo")
	case oracle.CapturePromo:
		labels = append(labels, "capture-promo")
	case oracle.DoublePush:
		labels = append(labels, "ep-target-set")
	}
	if o.EP >= 0 {
		labels = append(labels, "ep-target-cleared")
	}
	if o.WK != n.WK || o.WQ != n.WQ || o.BK != n.BK || o.BQ != n.BQ {
		labels = append(labels, "rights-change")
		lostW := (o.WK != n.WK) || (o.WQ != n.WQ)
		lostB := (o.BK != n.BK) || (o.BQ != n.BQ)
		if lostW && lostB {
			labels = append(labels, "rights-change-both-sides")
		}
		if om.Captured != 0 && (om.To == oracle.A1 || om.To == oracle.H1 || om.To == oracle.A8 || om.To == oracle.H8) {
			labels = append(labels, "rook-captured-at-home")
		}
	}
	return labels, len(labels) > 0
}

// checkC02Walk follows a game at the Position level: successor, views and the attack
// relation after every move (the position object is the one the engine itself derived,
// so a desynchronised redundant view shows up some moves later). At every node all other
// legal moves are also tried one step deep.
var checkC02Walk = def("C02/walk", func(gc gen.GameCase) error {
	st, err := oracle.ParseFEN(gc.FEN)
	if err != nil {
		return fmt.Errorf("case: %v", err)
	}
	o := st.Pos
	p, err := bridge.Position(&o)
	if err != nil {
		return err
	}
	if err := viewsAgree(p); err != nil {
		return fmt.Errorf("set-up position: %v", err)
	}
	if err := attacksAgree(p, &o); err != nil {
		return fmt.Errorf("set-up position: %v", err)
	}
	turn := bridge.Color(o.White)
	for i, mv := range gc.Moves {
		legal := o.Legal()
		var chosen *oracle.Move
		for k := range legal {
			m := legal[k]
			if m.String() == mv {
				chosen = &legal[k]
				continue
			}
			if _, err := successorAgrees(p, turn, &o, m); err != nil {
				return fmt.Errorf("ply %d (side line): %v", i, err)
			}
			labels, special := moveLabels(&o, m)
			stats.Eval("C02/walk", 1)
			if special {
				stats.Distinct("C02/walk", stats.FP(o.KeyFEN(), m.String()), labels...)
			}
		}
		if chosen == nil {
			return fmt.Errorf("case: move %d (%s) not legal", i, mv)
		}
		next, err := successorAgrees(p, turn, &o, *chosen)
		if err != nil {
			return fmt.Errorf("ply %d: %v", i, err)
		}
		labels, special := moveLabels(&o, *chosen)
		stats.Eval("C02/walk", 1)
		if special {
			stats.Distinct("C02/walk", stats.FP(o.KeyFEN(), chosen.String()), labels...)
		}
		o = o.Make(*chosen)
		p, turn = next, turn.Opponent()
		if err := attacksAgree(p, &o); err != nil {
			return fmt.Errorf("after ply %d (%s): %v", i, mv, err)
		}
	}
	if len(gc.Moves) >= 10 {
		stats.Distinct("C02/walk", stats.FP("seq", gc.FEN, fmt.Sprint(gc.Moves)), "sequence>=10")
	}
	return nil
})

func TestC02_walk(t *testing.T) {
	runRapid(t, "C02/walk", 20000, func(t *rapid.T) gen.GameCase {
		gc, _ := gen.Game(t, 80)
		return gc
	}, func(gc gen.GameCase) error {
		stats.Sample("C02/walk", gc)
		return checkC02Walk(gc)
	})
}

// checkC02Synth: every legal move of a synthetic position.
var checkC02Synth = def("C02/synth", func(c struct{ FEN string }) error {
	st, err := oracle.ParseFEN(c.FEN)
	if err != nil {
		return fmt.Errorf("case: %v", err)
	}
	p, err := bridge.Position(&st.Pos)
	if err != nil {
		return err
	}
	if err := viewsAgree(p); err != nil {
		return err
	}
	if err := attacksAgree(p, &st.Pos); err != nil {
		return err
	}
	turn := bridge.Color(st.Pos.White)
	for _, m := range st.Pos.Legal() {
		next, err := successorAgrees(p, turn, &st.Pos, m)
		if err != nil {
			return err
		}
		n := st.Pos.Make(m)
		if err := attacksAgree(next, &n); err != nil {
			return fmt.Errorf("after %v: %v", m, err)
		}
		labels, special := moveLabels(&st.Pos, m)
		stats.Case("C02/synth", stats.FP(st.Pos.KeyFEN(), m.String()), special, labels...)
	}
	return nil
})

func TestC02_synth(t *testing.T) {
	runRapid(t, "C02/synth", 20000, func(t *rapid.T) struct{ FEN string } {
		return struct{ FEN string }{gen.Synth(t).FEN()}
	}, func(c struct{ FEN string }) error {
		stats.Sample("C02/synth", c.FEN)
		return checkC02Synth(c)
	})
}

// wrongTexts: the text of a legal move with its promotion suffix altered.
func wrongTexts(om oracle.Move) []string {
	t := om.String()
	if len(t) == 5 {
		ret := []string{t[:4]}
		for _, c := range "qrbn" {
			if byte(c) != t[4] {
				ret = append(ret, t[:4]+string(c))
			}
		}
		return ret
	}
	return []string{t + "q", t + "n"}
}
