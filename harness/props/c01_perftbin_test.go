package props

import (
	"fmt"
	"os"
	"os/exec"
	"path/filepath"
	"strconv"
	"strings"
	"testing"

	"pgregory.net/rapid"
	"verifharness/gen"
	"verifharness/oracle"
	"verifharness/stats"
)

// checkC01PerftBin: the real cmd/perft binary (built from the working tree) against the
// oracle's node counts.
var checkC01PerftBin = def("C01/perftbin", func(c perftCase) error {
	st, err := oracle.ParseFEN(c.FEN)
	if err != nil {
		return fmt.Errorf("case: %v", err)
	}
	dir := os.Getenv("VERIF_BIN")
	if dir == "" {
		dir = filepath.Join(verifRoot(), ".build", "bin")
	}
	bin := filepath.Join(dir, "perft")
	if _, err := os.Stat(bin); err != nil {
		stats.Case("C01/perftbin", 0, false, "perft-binary-not-built")
		return nil
	}
	cmd := exec.Command(bin, "-logtostderr=true", "-depth", strconv.Itoa(c.Depth), "-fen", c.FEN)
	out, err := cmd.CombinedOutput() // the tool prints with println, i.e. on stderr
	if err != nil {
		return fmt.Errorf("cmd/perft on %q depth %d: %v: %s", c.FEN, c.Depth, err, lastNonLogLines(string(out)))
	}
	got := map[int]int64{}
	for _, line := range strings.Split(string(out), "\n") {
		// perft,<fen>,<depth>,<nodes>,<micros>
		if !strings.HasPrefix(line, "perft,") {
			continue
		}
		f := strings.Split(line, ",")
		if len(f) < 5 {
			continue
		}
		d, err1 := strconv.Atoi(f[len(f)-3])
		n, err2 := strconv.ParseInt(f[len(f)-2], 10, 64)
		if err1 == nil && err2 == nil {
			got[d] = n
		}
	}
	for d := 1; d <= c.Depth; d++ {
		want := st.Pos.Perft(d)
		n, ok := got[d]
		if !ok {
			return fmt.Errorf("cmd/perft printed no count for depth %d of %q: %s", d, c.FEN, lastNonLogLines(string(out)))
		}
		if n != want {
			return fmt.Errorf("cmd/perft counts %d nodes at depth %d of %q, the rules give %d", n, d, c.FEN, want)
		}
	}
	_, special := posLabels(&st.Pos)
	stats.Case("C01/perftbin", stats.FP(st.Pos.KeyFEN(), c.Depth), special || got[c.Depth] > 100, fmt.Sprintf("depth-%d", c.Depth))
	return nil
})

func TestC01_perftbin(t *testing.T) {
	maxDepth := 3
	runRapid(t, "C01/perftbin", 320, func(t *rapid.T) perftCase {
		var st oracle.State
		switch rapid.IntRange(0, 2).Draw(t, "src") {
		case 0:
			_, g := gen.Game(t, 40)
			st = *g.Cur()
		case 1:
			st = gen.Synth(t)
		default:
			st = gen.EPCheck(t)
		}
		return perftCase{FEN: st.FEN(), Depth: rapid.IntRange(1, maxDepth).Draw(t, "depth")}
	}, func(c perftCase) error {
		stats.Sample("C01/perftbin", c)
		return checkC01PerftBin(c)
	})
}
