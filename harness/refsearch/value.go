// Package refsearch holds the specification score order and the reference (exhaustive)
// searches the search properties are judged against.
package refsearch

import (
	"fmt"

	"github.com/herohde/morlock/pkg/eval"
)

// Class orders the five groups of scores.
type Class int

const (
	Lost      Class = iota // checkmated now
	MatedIn                // being mated in Dist plies
	Heuristic              // numeric
	MateIn                 // mating in Dist plies
	Won                    // opponent is checkmated now
)

// Value is a search value in specification terms.
type Value struct {
	Class Class
	Dist  int     // plies, > 0, for MatedIn/MateIn
	H     float32 // for Heuristic
}

func (v Value) String() string {
	switch v.Class {
	case Lost:
		return "lost"
	case Won:
		return "won"
	case MatedIn:
		return fmt.Sprintf("mated-in-%d", v.Dist)
	case MateIn:
		return fmt.Sprintf("mate-in-%d", v.Dist)
	default:
		return fmt.Sprintf("%v", v.H)
	}
}

// Cmp is the specification order, written out from the property text:
// lost < being mated sooner < being mated later < heuristic values by number
// < mating later < mating sooner < won.
func Cmp(a, b Value) int {
	if a.Class != b.Class {
		if a.Class < b.Class {
			return -1
		}
		return 1
	}
	switch a.Class {
	case MatedIn: // sooner is worse
		return cmpInt(a.Dist, b.Dist)
	case MateIn: // sooner is better
		return cmpInt(b.Dist, a.Dist)
	case Heuristic:
		switch {
		case a.H < b.H:
			return -1
		case a.H > b.H:
			return 1
		}
	}
	return 0
}

func cmpInt(a, b int) int {
	switch {
	case a < b:
		return -1
	case a > b:
		return 1
	}
	return 0
}

func Less(a, b Value) bool  { return Cmp(a, b) < 0 }
func Equal(a, b Value) bool { return Cmp(a, b) == 0 }

func MaxV(a, b Value) Value {
	if Less(a, b) {
		return b
	}
	return a
}

// Neg views a value from the other side.
func Neg(v Value) Value {
	switch v.Class {
	case Lost:
		return Value{Class: Won}
	case Won:
		return Value{Class: Lost}
	case MatedIn:
		return Value{Class: MateIn, Dist: v.Dist}
	case MateIn:
		return Value{Class: MatedIn, Dist: v.Dist}
	}
	return Value{Class: Heuristic, H: -v.H}
}

// Up is the value of a move, given the value of the position it leads to (seen from the
// opponent there): the negation with one more ply of mate distance.
func Up(child Value) Value {
	switch child.Class {
	case Lost: // the opponent is checkmated: I mate in 1
		return Value{Class: MateIn, Dist: 1}
	case Won:
		return Value{Class: MatedIn, Dist: 1}
	case MatedIn:
		return Value{Class: MateIn, Dist: child.Dist + 1}
	case MateIn:
		return Value{Class: MatedIn, Dist: child.Dist + 1}
	}
	return Value{Class: Heuristic, H: -child.H}
}

// Down is the inverse view: which child value (seen by the opponent) does a bound on the
// move value correspond to. Only used for reporting.

// FromScore translates a repo score. ok is false for invalid or degenerate (mate 0) scores.
func FromScore(s eval.Score) (Value, bool) {
	switch s.Type {
	case eval.Heuristic:
		return Value{Class: Heuristic, H: float32(s.Pawns)}, true
	case eval.MateInX:
		switch {
		case s.Mate > 0:
			return Value{Class: MateIn, Dist: int(s.Mate)}, true
		case s.Mate < 0:
			return Value{Class: MatedIn, Dist: -int(s.Mate)}, true
		}
		return Value{}, false
	case eval.Inf:
		return Value{Class: Won}, true
	case eval.NegInf:
		return Value{Class: Lost}, true
	}
	return Value{}, false
}

// ToScore translates to a repo score (Dist must fit int8).
func ToScore(v Value) eval.Score {
	switch v.Class {
	case Lost:
		return eval.NegInfScore
	case Won:
		return eval.InfScore
	case MatedIn:
		return eval.MateInXScore(int8(-v.Dist))
	case MateIn:
		return eval.MateInXScore(int8(v.Dist))
	}
	return eval.HeuristicScore(eval.Pawns(v.H))
}
