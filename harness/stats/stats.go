// Package stats collects what a run actually explored: case counts, distinct non-trivial
// fingerprints, label histograms and sample cases. One JSON file per process.
package stats

import (
	"encoding/json"
	"fmt"
	"hash/fnv"
	"os"
	"sort"
	"sync"
)

type collector struct {
	Evaluations int64            `json:"evaluations"`
	Nontrivial  int64            `json:"nontrivial_evaluations"`
	Labels      map[string]int64 `json:"labels"`
	Notes       map[string]int64 `json:"notes"`
	Samples     []any            `json:"samples"`
	FPs         []uint64         `json:"fingerprints"`
	Exhaustive  bool             `json:"exhaustive"`

	fps      map[uint64]struct{}
	sampleN  int64
	overflow bool
}

const maxFPs = 3_000_000
const maxSamples = 6

var (
	mu  sync.Mutex
	all = map[string]*collector{}
)

func get(id string) *collector {
	c := all[id]
	if c == nil {
		c = &collector{Labels: map[string]int64{}, Notes: map[string]int64{}, fps: map[uint64]struct{}{}}
		all[id] = c
	}
	return c
}

// FP hashes arbitrary parts into a fingerprint.
func FP(parts ...any) uint64 {
	h := fnv.New64a()
	for _, p := range parts {
		fmt.Fprint(h, p)
		h.Write([]byte{0})
	}
	return h.Sum64()
}

// Case records one evaluated case for sub-check id (e.g. "C07/walk").
func Case(id string, fp uint64, nontrivial bool, labels ...string) {
	mu.Lock()
	defer mu.Unlock()
	c := get(id)
	c.Evaluations++
	if nontrivial {
		c.Nontrivial++
		if len(c.fps) < maxFPs {
			c.fps[fp] = struct{}{}
		} else {
			c.overflow = true
		}
	}
	for _, l := range labels {
		c.Labels[l]++
	}
}

// Distinct records a distinct non-trivial item without counting an evaluation
// (for walks where one generated case visits many positions).
func Distinct(id string, fp uint64, labels ...string) {
	mu.Lock()
	defer mu.Unlock()
	c := get(id)
	if len(c.fps) < maxFPs {
		c.fps[fp] = struct{}{}
	}
	for _, l := range labels {
		c.Labels[l]++
	}
}

// Enumerated records n evaluated cases that are distinct and non-trivial by construction
// (exhaustive enumerations: every index of the enumeration is a different case).
func Enumerated(id string, n int64, label string) {
	mu.Lock()
	defer mu.Unlock()
	c := get(id)
	c.Evaluations += n
	c.Nontrivial += n
	c.Notes["distinct_by_construction"] += n
	c.Labels[label] += n
}

// Eval counts evaluations without fingerprint.
func Eval(id string, n int64) {
	mu.Lock()
	defer mu.Unlock()
	get(id).Evaluations += n
}

func Label(id string, l string) {
	mu.Lock()
	defer mu.Unlock()
	get(id).Labels[l]++
}

func Note(id, key string, n int64) {
	mu.Lock()
	defer mu.Unlock()
	get(id).Notes[key] += n
}

func SetExhaustive(id string) {
	mu.Lock()
	defer mu.Unlock()
	get(id).Exhaustive = true
}

// Sample keeps a few of the offered cases: the first ones and then powers of two, so that
// the choice does not depend on a clock or a private random source.
func Sample(id string, v any) {
	mu.Lock()
	defer mu.Unlock()
	c := get(id)
	c.sampleN++
	n := c.sampleN
	if len(c.Samples) < maxSamples {
		c.Samples = append(c.Samples, v)
		return
	}
	if n&(n-1) == 0 { // power of two: replace round-robin
		c.Samples[int(n>>3)%maxSamples] = v
	}
}

// Flush writes everything to the file named by VERIF_STATS_OUT (if set).
func Flush() {
	mu.Lock()
	defer mu.Unlock()
	out := os.Getenv("VERIF_STATS_OUT")
	if out == "" {
		return
	}
	for _, c := range all {
		c.FPs = c.FPs[:0]
		for fp := range c.fps {
			c.FPs = append(c.FPs, fp)
		}
		sort.Slice(c.FPs, func(i, j int) bool { return c.FPs[i] < c.FPs[j] })
		if c.overflow {
			c.Notes["fingerprint_set_overflow"] = 1
		}
	}
	data, err := json.Marshal(all)
	if err != nil {
		fmt.Fprintf(os.Stderr, "stats: %v\n", err)
		return
	}
	_ = os.WriteFile(out, data, 0o644)
}
