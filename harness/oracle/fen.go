package oracle

import (
	"fmt"
	"strconv"
	"strings"
)

const InitialFEN = "rnbqkbnr/pppppppp/8/8/8/8/PPPPPPPP/RNBQKBNR w KQkq - 0 1"

// State is a position plus clocks.
type State struct {
	Pos  Pos
	Half int // half-move clock
	Full int // full-move number
}

var pieceLetters = map[byte]int8{'P': Pawn, 'N': Knight, 'B': Bishop, 'R': Rook, 'Q': Queen, 'K': King}

func letterOf(pc int8) byte {
	l := "?PNBRQK"[abs8(pc)]
	if pc < 0 {
		l += 'a' - 'A'
	}
	return l
}

// ParseFEN is a strict decoder of standard six-field FEN.
func ParseFEN(s string) (State, error) {
	var st State
	parts := strings.Split(s, " ")
	if len(parts) != 6 {
		return st, fmt.Errorf("need 6 fields")
	}
	ranks := strings.Split(parts[0], "/")
	if len(ranks) != 8 {
		return st, fmt.Errorf("need 8 ranks")
	}
	for i, rk := range ranks {
		r := 7 - i
		f := 0
		for j := 0; j < len(rk); j++ {
			c := rk[j]
			if c >= '1' && c <= '8' {
				f += int(c - '0')
				continue
			}
			up := c
			if c >= 'a' && c <= 'z' {
				up = c - ('a' - 'A')
			}
			k, ok := pieceLetters[up]
			if !ok {
				return st, fmt.Errorf("bad piece %q", c)
			}
			if f > 7 {
				return st, fmt.Errorf("rank overflow")
			}
			if c != up {
				k = -k
			}
			st.Pos.Sq[Sq(f, r)] = k
			f++
		}
		if f != 8 {
			return st, fmt.Errorf("rank %d has %d squares", r+1, f)
		}
	}
	switch parts[1] {
	case "w":
		st.Pos.White = true
	case "b":
	default:
		return st, fmt.Errorf("bad side")
	}
	if parts[2] != "-" {
		for _, c := range parts[2] {
			switch c {
			case 'K':
				st.Pos.WK = true
			case 'Q':
				st.Pos.WQ = true
			case 'k':
				st.Pos.BK = true
			case 'q':
				st.Pos.BQ = true
			default:
				return st, fmt.Errorf("bad castling")
			}
		}
	}
	st.Pos.EP = -1
	if parts[3] != "-" {
		if len(parts[3]) != 2 || parts[3][0] < 'a' || parts[3][0] > 'h' || parts[3][1] < '1' || parts[3][1] > '8' {
			return st, fmt.Errorf("bad ep")
		}
		st.Pos.EP = int8(Sq(int(parts[3][0]-'a'), int(parts[3][1]-'1')))
	}
	var err error
	if st.Half, err = strconv.Atoi(parts[4]); err != nil || st.Half < 0 {
		return st, fmt.Errorf("bad half")
	}
	if st.Full, err = strconv.Atoi(parts[5]); err != nil || st.Full < 0 {
		return st, fmt.Errorf("bad full")
	}
	return st, nil
}

// MustFEN parses or panics (harness constants only).
func MustFEN(s string) State {
	st, err := ParseFEN(s)
	if err != nil {
		panic("oracle: bad FEN " + s + ": " + err.Error())
	}
	return st
}

// PlacementFEN returns the first four fields.
func (p *Pos) KeyFEN() string {
	var sb strings.Builder
	for r := 7; r >= 0; r-- {
		blank := 0
		for f := 0; f < 8; f++ {
			pc := p.Sq[Sq(f, r)]
			if pc == Empty {
				blank++
				continue
			}
			if blank > 0 {
				sb.WriteByte(byte('0' + blank))
				blank = 0
			}
			sb.WriteByte(letterOf(pc))
		}
		if blank > 0 {
			sb.WriteByte(byte('0' + blank))
		}
		if r > 0 {
			sb.WriteByte('/')
		}
	}
	if p.White {
		sb.WriteString(" w ")
	} else {
		sb.WriteString(" b ")
	}
	c := ""
	if p.WK {
		c += "K"
	}
	if p.WQ {
		c += "Q"
	}
	if p.BK {
		c += "k"
	}
	if p.BQ {
		c += "q"
	}
	if c == "" {
		c = "-"
	}
	sb.WriteString(c)
	sb.WriteByte(' ')
	if p.EP >= 0 {
		sb.WriteString(SqName(int(p.EP)))
	} else {
		sb.WriteByte('-')
	}
	return sb.String()
}

// FEN is the standard six-field FEN.
func (s State) FEN() string {
	return fmt.Sprintf("%s %d %d", s.Pos.KeyFEN(), s.Half, s.Full)
}

// Game is a game history: all states from the set-up position on, and the moves between.
type Game struct {
	States []State
	Moves  []Move
	// Fired[i] lists the draw rules that hold at States[i] because of the move leading to it
	// (States[0] has none: a result is only judged after a move).
	Fired [][]string
}

func NewGame(start State) *Game {
	return &Game{States: []State{start}, Fired: [][]string{nil}}
}

func (g *Game) Cur() *State { return &g.States[len(g.States)-1] }

func (g *Game) Clone() *Game {
	n := &Game{}
	n.States = append(n.States, g.States...)
	n.Moves = append(n.Moves, g.Moves...)
	n.Fired = append(n.Fired, g.Fired...)
	return n
}

// RepCount counts how often the current position has occurred in the game, start included.
func (g *Game) RepCount() int {
	cur := g.Cur().Pos
	n := 0
	for i := range g.States {
		if g.States[i].Pos == cur {
			n++
		}
	}
	return n
}

const (
	RuleRep3         = "rep3"
	RuleRep5         = "rep5"
	RuleFifty        = "fifty"
	RuleInsufficient = "insufficient"
)

// Push plays a legal move.
func (g *Game) Push(m Move) {
	cur := g.Cur()
	n := State{Pos: cur.Pos.Make(m), Half: cur.Half + 1, Full: cur.Full}
	if m.Piece == Pawn || m.Captured != 0 {
		n.Half = 0
	}
	if !cur.Pos.White {
		n.Full++
	}
	g.States = append(g.States, n)
	g.Moves = append(g.Moves, m)
	var fired []string
	if rc := g.RepCount(); rc >= 5 {
		fired = append(fired, RuleRep3, RuleRep5)
	} else if rc >= 3 {
		fired = append(fired, RuleRep3)
	}
	if n.Half >= 100 {
		fired = append(fired, RuleFifty)
	}
	if (m.Kind == Capture || m.Kind == EnPassant || m.Kind == CapturePromo || (m.Kind == Promo && m.Promo != Queen)) && n.Pos.Insufficient() {
		fired = append(fired, RuleInsufficient)
	}
	g.Fired = append(g.Fired, fired)
}

// Pop takes back the last move.
func (g *Game) Pop() bool {
	if len(g.Moves) == 0 {
		return false
	}
	g.States = g.States[:len(g.States)-1]
	g.Moves = g.Moves[:len(g.Moves)-1]
	g.Fired = g.Fired[:len(g.Fired)-1]
	return true
}

// DrawNow reports whether a draw rule holds for the position just reached.
func (g *Game) DrawNow() bool { return len(g.Fired[len(g.Fired)-1]) > 0 }

// DrawEver reports whether any draw rule fired at any point of the current line.
func (g *Game) DrawEver() bool {
	for _, f := range g.Fired {
		if len(f) > 0 {
			return true
		}
	}
	return false
}

func (g *Game) FiredNow(rule string) bool {
	for _, f := range g.Fired[len(g.Fired)-1] {
		if f == rule {
			return true
		}
	}
	return false
}

// FindMove finds a legal move by coordinate text ("e2e4", "a7a8q").
func (p *Pos) FindMove(text string) (Move, bool) {
	for _, m := range p.Legal() {
		if m.String() == text {
			return m, true
		}
	}
	return Move{}, false
}
