package oracle

import "testing"

// Published perft values; these validate the oracle only.
var perfts = []struct {
	fen    string
	counts []int64
}{
	{InitialFEN, []int64{20, 400, 8902, 197281}},
	{"r3k2r/p1ppqpb1/bn2pnp1/3PN3/1p2P3/2N2Q1p/PPPBBPPP/R3K2R w KQkq - 0 1", []int64{48, 2039, 97862}},
	{"8/2p5/3p4/KP5r/1R3p1k/8/4P1P1/8 w - - 0 1", []int64{14, 191, 2812, 43238}},
	{"r3k2r/Pppp1ppp/1b3nbN/nP6/BBP1P3/q4N2/Pp1P2PP/R2Q1RK1 w kq - 0 1", []int64{6, 264, 9467}},
	{"rnbq1k1r/pp1Pbppp/2p5/8/2B5/8/PPP1NnPP/RNBQK2R w KQ - 1 8", []int64{44, 1486, 62379}},
	{"r4rk1/1pp1qppp/p1np1n2/2b1p1B1/2B1P1b1/P1NP1N2/1PP1QPPP/R4RK1 w - - 0 10", []int64{46, 2079, 89890}},
}

func TestPerft(t *testing.T) {
	for _, p := range perfts {
		st := MustFEN(p.fen)
		for d, want := range p.counts {
			if testing.Short() && want > 100000 {
				continue
			}
			if got := st.Pos.Perft(d + 1); got != want {
				t.Errorf("%s depth %d: got %d want %d", p.fen, d+1, got, want)
			}
		}
	}
}

func TestFENRoundTrip(t *testing.T) {
	for _, p := range perfts {
		if got := MustFEN(p.fen).FEN(); got != p.fen {
			t.Errorf("round trip: %q -> %q", p.fen, got)
		}
	}
}

func TestGameRules(t *testing.T) {
	g := NewGame(MustFEN(InitialFEN))
	for i, mv := range []string{"g1f3", "g8f6", "f3g1", "f6g8", "g1f3", "g8f6", "f3g1", "f6g8"} {
		m, ok := g.Cur().Pos.FindMove(mv)
		if !ok {
			t.Fatalf("move %v not found", mv)
		}
		g.Push(m)
		if want := i == 7; g.DrawNow() != want {
			t.Errorf("after %d moves drawn=%v", i+1, g.DrawNow())
		}
	}
	if g.Cur().Half != 8 || g.Cur().Full != 5 {
		t.Errorf("clocks %d %d", g.Cur().Half, g.Cur().Full)
	}
	if !(&Pos{}).Insufficient() == false {
	}
	for fen, want := range map[string]bool{
		"8/8/8/8/8/8/8/K1k5 w - - 0 1":    true,
		"8/8/8/8/8/8/8/K1kB4 w - - 0 1":   true,
		"8/8/8/8/8/8/8/K1kR4 w - - 0 1":   false,
		"8/8/8/8/8/8/6B1/K1k4B w - - 0 1": true,  // g2 and h1: same colour
		"8/8/8/8/8/8/6B1/K1k3B1 w - - 0 1": false, // g2 and g1: opposite colours
		"8/8/8/8/8/8/6b1/K1k4B w - - 0 1": true,
		"8/8/8/8/8/8/6N1/K1k4B w - - 0 1": false,
	} {
		st := MustFEN(fen)
		if got := st.Pos.Insufficient(); got != want {
			t.Errorf("%s insufficient=%v want %v", fen, got, want)
		}
	}
}

func TestAttackedAgreesWithDefinition(t *testing.T) {
	for _, p := range perfts {
		st := MustFEN(p.fen)
		var walk func(pos Pos, d int)
		walk = func(pos Pos, d int) {
			for s := 0; s < 64; s++ {
				for _, w := range []bool{true, false} {
					if pos.Attacked(s, w) != pos.AttackedSlow(s, w) {
						t.Fatalf("Attacked(%s,%v) disagrees with the definition in %s", SqName(s), w, pos.KeyFEN())
					}
				}
			}
			if d == 0 {
				return
			}
			for _, m := range pos.Legal() {
				walk(pos.Make(m), d-1)
			}
		}
		walk(st.Pos, 2)
	}
}
