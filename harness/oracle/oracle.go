// Package oracle is an independent, deliberately naive model of the rules of chess.
// It shares no code with the repository under test: 64-entry mailbox, ray walking,
// make-and-test legality. Everything the checks believe about chess lives here.
package oracle

// Piece codes. White positive, Black negative.
const (
	Empty  int8 = 0
	Pawn   int8 = 1
	Knight int8 = 2
	Bishop int8 = 3
	Rook   int8 = 4
	Queen  int8 = 5
	King   int8 = 6
)

// Kind classifies what a move does.
type Kind int8

const (
	Quiet       Kind = iota + 1 // non-pawn, non-capturing
	PawnPush                    // single step, no promotion
	DoublePush                  // two-square pawn step
	EnPassant                   //
	CastleQ                     //
	CastleK                     //
	Capture                     // any capture that is not e.p. and not a promotion
	Promo                       // non-capturing promotion
	CapturePromo                //
)

func (k Kind) String() string {
	return [...]string{"?", "Quiet", "PawnPush", "DoublePush", "EnPassant", "CastleQ", "CastleK", "Capture", "Promo", "CapturePromo"}[k]
}

// Square index = file + 8*rank, a1 = 0, h1 = 7, a8 = 56, h8 = 63.
func Sq(file, rank int) int { return file + 8*rank }
func File(sq int) int       { return sq & 7 }
func Rank(sq int) int       { return sq >> 3 }

func SqName(sq int) string {
	return string([]byte{byte('a' + File(sq)), byte('1' + Rank(sq))})
}

const (
	A1 = 0
	B1 = 1
	C1 = 2
	D1 = 3
	E1 = 4
	F1 = 5
	G1 = 6
	H1 = 7
	A8 = 56
	B8 = 57
	C8 = 58
	D8 = 59
	E8 = 60
	F8 = 61
	G8 = 62
	H8 = 63
)

// Pos is a position in the sense of the repetition rule: placement, side to move,
// castling rights and en-passant target. It is comparable with ==.
type Pos struct {
	Sq             [64]int8
	White          bool // side to move
	WK, WQ, BK, BQ bool // castling rights
	EP             int8 // en-passant target square or -1
}

// Move is a move with its classification.
type Move struct {
	From, To int8
	Promo    int8 // Knight..Queen (colourless) or 0
	Kind     Kind
	Piece    int8 // colourless kind of the moving piece
	Captured int8 // colourless kind of the captured piece (Pawn for e.p.), 0 if none
}

func (m Move) String() string {
	s := SqName(int(m.From)) + SqName(int(m.To))
	switch m.Promo {
	case Knight:
		s += "n"
	case Bishop:
		s += "b"
	case Rook:
		s += "r"
	case Queen:
		s += "q"
	}
	return s
}

func abs8(v int8) int8 {
	if v < 0 {
		return -v
	}
	return v
}

func sign(white bool) int8 {
	if white {
		return 1
	}
	return -1
}

var knightD = [8][2]int{{1, 2}, {2, 1}, {2, -1}, {1, -2}, {-1, -2}, {-2, -1}, {-2, 1}, {-1, 2}}
var kingD = [8][2]int{{1, 0}, {1, 1}, {0, 1}, {-1, 1}, {-1, 0}, {-1, -1}, {0, -1}, {1, -1}}
var rookD = [4][2]int{{1, 0}, {0, 1}, {-1, 0}, {0, -1}}
var bishopD = [4][2]int{{1, 1}, {-1, 1}, {-1, -1}, {1, -1}}

func on(f, r int) bool { return f >= 0 && f < 8 && r >= 0 && r < 8 }

// Attacks reports whether the piece standing on 'from' attacks square 'to' (geometrically,
// sliders stopping at the first occupied square). Pawns attack diagonally forward only.
func (p *Pos) Attacks(from, to int) bool {
	pc := p.Sq[from]
	if pc == Empty || from == to {
		return false
	}
	ff, fr, tf, tr := File(from), Rank(from), File(to), Rank(to)
	df, dr := tf-ff, tr-fr
	switch abs8(pc) {
	case Pawn:
		dir := 1
		if pc < 0 {
			dir = -1
		}
		return dr == dir && (df == 1 || df == -1)
	case Knight:
		return (df*df == 1 && dr*dr == 4) || (df*df == 4 && dr*dr == 1)
	case King:
		return df >= -1 && df <= 1 && dr >= -1 && dr <= 1
	case Rook:
		if df != 0 && dr != 0 {
			return false
		}
	case Bishop:
		if df != dr && df != -dr {
			return false
		}
	case Queen:
		if df != 0 && dr != 0 && df != dr && df != -dr {
			return false
		}
	}
	// slider: walk
	sf, sr := 0, 0
	if df > 0 {
		sf = 1
	} else if df < 0 {
		sf = -1
	}
	if dr > 0 {
		sr = 1
	} else if dr < 0 {
		sr = -1
	}
	f, r := ff+sf, fr+sr
	for on(f, r) {
		s := Sq(f, r)
		if s == to {
			return true
		}
		if p.Sq[s] != Empty {
			return false
		}
		f, r = f+sf, r+sr
	}
	return false
}

// AttackersOf lists the squares of the pieces of the given colour that attack sq.
func (p *Pos) AttackersOf(sq int, byWhite bool) []int {
	var ret []int
	for from := 0; from < 64; from++ {
		pc := p.Sq[from]
		if pc == Empty || (pc > 0) != byWhite {
			continue
		}
		if p.Attacks(from, sq) {
			ret = append(ret, from)
		}
	}
	return ret
}

// AttackedSlow reports whether sq is attacked by any piece of the given colour, by asking
// every piece. Kept as the definition; Attacked is cross-checked against it in the self-test.
func (p *Pos) AttackedSlow(sq int, byWhite bool) bool {
	for from := 0; from < 64; from++ {
		pc := p.Sq[from]
		if pc == Empty || (pc > 0) != byWhite {
			continue
		}
		if p.Attacks(from, sq) {
			return true
		}
	}
	return false
}

// Attacked reports whether sq is attacked by any piece of the given colour, by walking
// outward from sq.
func (p *Pos) Attacked(sq int, byWhite bool) bool {
	sg := sign(byWhite)
	f, r := File(sq), Rank(sq)
	for _, d := range knightD {
		if on(f+d[0], r+d[1]) && p.Sq[Sq(f+d[0], r+d[1])] == sg*Knight {
			return true
		}
	}
	for _, d := range kingD {
		if on(f+d[0], r+d[1]) && p.Sq[Sq(f+d[0], r+d[1])] == sg*King {
			return true
		}
	}
	// a white pawn attacks upward, so it stands one rank below the attacked square
	pr := r - 1
	if !byWhite {
		pr = r + 1
	}
	for _, df := range []int{-1, 1} {
		if on(f+df, pr) && p.Sq[Sq(f+df, pr)] == sg*Pawn {
			return true
		}
	}
	for i, d := range kingD {
		diag := d[0] != 0 && d[1] != 0
		_ = i
		cf, cr := f+d[0], r+d[1]
		for on(cf, cr) {
			pc := p.Sq[Sq(cf, cr)]
			if pc != Empty {
				if (pc > 0) == byWhite {
					k := abs8(pc)
					if k == Queen || (diag && k == Bishop) || (!diag && k == Rook) {
						return true
					}
				}
				break
			}
			cf, cr = cf+d[0], cr+d[1]
		}
	}
	return false
}

// KingSq returns the king square of the colour, or -1.
func (p *Pos) KingSq(white bool) int {
	k := King * sign(white)
	for s := 0; s < 64; s++ {
		if p.Sq[s] == k {
			return s
		}
	}
	return -1
}

// InCheck reports whether the colour's king is attacked.
func (p *Pos) InCheck(white bool) bool {
	k := p.KingSq(white)
	return k >= 0 && p.Attacked(k, !white)
}

// PseudoLegal generates the pseudo-legal moves of the side to move: every move that obeys
// the movement rule of its piece; castling only requires rights, king and rook at home and
// empty squares between. King safety is NOT considered.
func (p *Pos) PseudoLegal() []Move {
	var ret []Move
	w := p.White
	sg := sign(w)
	add := func(from, to int, kind Kind, promo int8) {
		m := Move{From: int8(from), To: int8(to), Promo: promo, Kind: kind, Piece: abs8(p.Sq[from])}
		switch kind {
		case Capture, CapturePromo:
			m.Captured = abs8(p.Sq[to])
		case EnPassant:
			m.Captured = Pawn
		}
		ret = append(ret, m)
	}
	for from := 0; from < 64; from++ {
		pc := p.Sq[from]
		if pc == Empty || (pc > 0) != w {
			continue
		}
		f, r := File(from), Rank(from)
		switch abs8(pc) {
		case Pawn:
			dir, startRank, promoRank := 1, 1, 7
			if !w {
				dir, startRank, promoRank = -1, 6, 0
			}
			// pushes
			if on(f, r+dir) && p.Sq[Sq(f, r+dir)] == Empty {
				to := Sq(f, r+dir)
				if r+dir == promoRank {
					for _, pr := range []int8{Queen, Rook, Knight, Bishop} {
						add(from, to, Promo, pr)
					}
				} else {
					add(from, to, PawnPush, 0)
					if r == startRank && p.Sq[Sq(f, r+2*dir)] == Empty {
						add(from, Sq(f, r+2*dir), DoublePush, 0)
					}
				}
			}
			// captures
			for _, df := range []int{-1, 1} {
				if !on(f+df, r+dir) {
					continue
				}
				to := Sq(f+df, r+dir)
				t := p.Sq[to]
				if t != Empty && (t > 0) != w {
					if r+dir == promoRank {
						for _, pr := range []int8{Queen, Rook, Knight, Bishop} {
							add(from, to, CapturePromo, pr)
						}
					} else {
						add(from, to, Capture, 0)
					}
				} else if t == Empty && p.EP >= 0 && int(p.EP) == to {
					// the pawn to be captured stands beside us
					if p.Sq[Sq(f+df, r)] == -sg*Pawn {
						add(from, to, EnPassant, 0)
					}
				}
			}
		case Knight, King:
			ds := knightD
			if abs8(pc) == King {
				ds = kingD
			}
			for _, d := range ds {
				if !on(f+d[0], r+d[1]) {
					continue
				}
				to := Sq(f+d[0], r+d[1])
				t := p.Sq[to]
				if t == Empty {
					add(from, to, Quiet, 0)
				} else if (t > 0) != w {
					add(from, to, Capture, 0)
				}
			}
		default:
			var ds [][2]int
			if abs8(pc) != Bishop {
				ds = append(ds, rookD[:]...)
			}
			if abs8(pc) != Rook {
				ds = append(ds, bishopD[:]...)
			}
			for _, d := range ds {
				cf, cr := f+d[0], r+d[1]
				for on(cf, cr) {
					to := Sq(cf, cr)
					t := p.Sq[to]
					if t == Empty {
						add(from, to, Quiet, 0)
					} else {
						if (t > 0) != w {
							add(from, to, Capture, 0)
						}
						break
					}
					cf, cr = cf+d[0], cr+d[1]
				}
			}
		}
	}
	// castling
	if w {
		if p.WK && p.Sq[E1] == King && p.Sq[H1] == Rook && p.Sq[F1] == Empty && p.Sq[G1] == Empty {
			add(E1, G1, CastleK, 0)
		}
		if p.WQ && p.Sq[E1] == King && p.Sq[A1] == Rook && p.Sq[D1] == Empty && p.Sq[C1] == Empty && p.Sq[B1] == Empty {
			add(E1, C1, CastleQ, 0)
		}
	} else {
		if p.BK && p.Sq[E8] == -King && p.Sq[H8] == -Rook && p.Sq[F8] == Empty && p.Sq[G8] == Empty {
			add(E8, G8, CastleK, 0)
		}
		if p.BQ && p.Sq[E8] == -King && p.Sq[A8] == -Rook && p.Sq[D8] == Empty && p.Sq[C8] == Empty && p.Sq[B8] == Empty {
			add(E8, C8, CastleQ, 0)
		}
	}
	return ret
}

// Make plays a (pseudo-legal) move and returns the successor. The receiver is not changed.
func (p *Pos) Make(m Move) Pos {
	n := *p
	w := p.White
	sg := sign(w)
	from, to := int(m.From), int(m.To)
	pc := n.Sq[from]
	n.Sq[from] = Empty
	n.Sq[to] = pc
	switch m.Kind {
	case EnPassant:
		n.Sq[Sq(File(to), Rank(from))] = Empty
	case CastleK:
		r := Rank(from)
		n.Sq[Sq(7, r)] = Empty
		n.Sq[Sq(5, r)] = sg * Rook
	case CastleQ:
		r := Rank(from)
		n.Sq[Sq(0, r)] = Empty
		n.Sq[Sq(3, r)] = sg * Rook
	case Promo, CapturePromo:
		n.Sq[to] = sg * m.Promo
	}
	// rights
	if abs8(pc) == King {
		if w {
			n.WK, n.WQ = false, false
		} else {
			n.BK, n.BQ = false, false
		}
	}
	for _, s := range []int{from, to} {
		switch s {
		case A1:
			n.WQ = false
		case H1:
			n.WK = false
		case A8:
			n.BQ = false
		case H8:
			n.BK = false
		}
	}
	// en passant target: directly after a double step only
	n.EP = -1
	if m.Kind == DoublePush {
		n.EP = int8((from + to) / 2)
	}
	n.White = !w
	return n
}

// IsLegal decides legality of a pseudo-legal move.
func (p *Pos) IsLegal(m Move) bool {
	w := p.White
	if m.Kind == CastleK || m.Kind == CastleQ {
		if p.InCheck(w) {
			return false
		}
		step := 1
		if m.Kind == CastleQ {
			step = -1
		}
		// squares the king passes over and lands on
		for s := int(m.From) + step; ; s += step {
			if p.Attacked(s, !w) {
				return false
			}
			if s == int(m.To) {
				break
			}
		}
		return true
	}
	n := p.Make(m)
	return !n.InCheck(w)
}

// Legal returns the legal moves of the side to move.
func (p *Pos) Legal() []Move {
	var ret []Move
	for _, m := range p.PseudoLegal() {
		if p.IsLegal(m) {
			ret = append(ret, m)
		}
	}
	return ret
}

// HasLegal reports whether the side to move has any legal move.
func (p *Pos) HasLegal() bool {
	for _, m := range p.PseudoLegal() {
		if p.IsLegal(m) {
			return true
		}
	}
	return false
}

// Insufficient reports K v K, K+minor v K, or kings plus exactly two bishops standing on
// squares of the same colour.
func (p *Pos) Insufficient() bool {
	n := 0
	var minors, bishops []int
	for s := 0; s < 64; s++ {
		pc := abs8(p.Sq[s])
		if pc == Empty {
			continue
		}
		n++
		if pc == Knight || pc == Bishop {
			minors = append(minors, s)
		}
		if pc == Bishop {
			bishops = append(bishops, s)
		}
	}
	switch n {
	case 2:
		return true
	case 3:
		return len(minors) == 1
	case 4:
		if len(bishops) != 2 {
			return false
		}
		c0 := (File(bishops[0]) + Rank(bishops[0])) & 1
		c1 := (File(bishops[1]) + Rank(bishops[1])) & 1
		return c0 == c1
	}
	return false
}

// Perft counts leaf nodes.
func (p *Pos) Perft(depth int) int64 {
	if depth == 0 {
		return 1
	}
	var n int64
	for _, m := range p.Legal() {
		c := p.Make(m)
		n += c.Perft(depth - 1)
	}
	return n
}

// Mirror flips ranks and swaps colours (including side to move, rights and e.p.).
func (p *Pos) Mirror() Pos {
	var n Pos
	for s := 0; s < 64; s++ {
		n.Sq[Sq(File(s), 7-Rank(s))] = -p.Sq[s]
	}
	n.White = !p.White
	n.WK, n.WQ, n.BK, n.BQ = p.BK, p.BQ, p.WK, p.WQ
	n.EP = -1
	if p.EP >= 0 {
		n.EP = int8(Sq(File(int(p.EP)), 7-Rank(int(p.EP))))
	}
	return n
}

// MirrorMove mirrors a move.
func MirrorMove(m Move) Move {
	m.From = int8(Sq(File(int(m.From)), 7-Rank(int(m.From))))
	m.To = int8(Sq(File(int(m.To)), 7-Rank(int(m.To))))
	return m
}
