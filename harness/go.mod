module verifharness

go 1.23

toolchain go1.23.5

require (
	github.com/herohde/morlock v0.0.0
	github.com/seekerror/stdlib v0.0.0-20231216224128-fab4c1e73ebe
	pgregory.net/rapid v1.3.0
)

require (
	github.com/golang/glog v1.2.0 // indirect
	github.com/seekerror/build v1.0.2 // indirect
	github.com/seekerror/logw v0.8.1 // indirect
	golang.org/x/exp v0.0.0-20231214170342-aacd6d4b4611 // indirect
)

replace github.com/herohde/morlock => /repo
