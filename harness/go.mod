module verifharness

go 1.23

toolchain go1.23.5

require (
	github.com/herohde/morlock v0.0.0
	pgregory.net/rapid v1.3.0
)

require github.com/seekerror/stdlib v0.0.0-20231216224128-fab4c1e73ebe // indirect

replace github.com/herohde/morlock => /repo
