package gen

import (
	"testing"

	"pgregory.net/rapid"
	"verifharness/oracle"
)

func validState(st oracle.State) string {
	p := &st.Pos
	wk, bk := 0, 0
	for s := 0; s < 64; s++ {
		switch p.Sq[s] {
		case oracle.King:
			wk++
		case -oracle.King:
			bk++
		case oracle.Pawn, -oracle.Pawn:
			if oracle.Rank(s) == 0 || oracle.Rank(s) == 7 {
				return "pawn on back rank"
			}
		}
	}
	if wk != 1 || bk != 1 {
		return "king count"
	}
	a, b := p.KingSq(true), p.KingSq(false)
	df, dr := oracle.File(a)-oracle.File(b), oracle.Rank(a)-oracle.Rank(b)
	if df >= -1 && df <= 1 && dr >= -1 && dr <= 1 {
		return "adjacent kings"
	}
	if p.InCheck(!p.White) {
		return "side not to move is in check"
	}
	return ""
}

func TestPool(t *testing.T) {
	for _, f := range Pool {
		st, err := oracle.ParseFEN(f)
		if err != nil {
			t.Errorf("%q: %v", f, err)
			continue
		}
		if st.FEN() != f {
			t.Errorf("%q not canonical: %q", f, st.FEN())
		}
		if why := validState(st); why != "" {
			t.Errorf("%q: %s", f, why)
		}
	}
}

func TestSynthValid(t *testing.T) {
	rapid.Check(t, func(t *rapid.T) {
		st := Synth(t)
		if why := validState(st); why != "" {
			t.Fatalf("%s: %s", st.FEN(), why)
		}
		if _, err := oracle.ParseFEN(st.FEN()); err != nil {
			t.Fatalf("%v", err)
		}
	})
}
