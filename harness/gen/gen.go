package gen

import (
	"fmt"

	"pgregory.net/rapid"
	"verifharness/oracle"
)

// GameCase is a serialisable game: set-up FEN and coordinate moves. All checks that work on
// games take this shape, so a replay file is independent of the generators.
type GameCase struct {
	FEN   string   `json:"fen"`
	Moves []string `json:"moves"`
}

func (g GameCase) String() string { return fmt.Sprintf("%s moves %v", g.FEN, g.Moves) }

// Build replays the case on the oracle. Returns an error when a move is not legal (a
// hand-edited replay file).
func (g GameCase) Build() (*oracle.Game, error) {
	st, err := oracle.ParseFEN(g.FEN)
	if err != nil {
		return nil, fmt.Errorf("case FEN %q: %v", g.FEN, err)
	}
	game := oracle.NewGame(st)
	for i, mv := range g.Moves {
		m, ok := game.Cur().Pos.FindMove(mv)
		if !ok {
			return nil, fmt.Errorf("case move %d (%s) is not legal", i, mv)
		}
		game.Push(m)
	}
	return game, nil
}

// Bucket indexes of the move-kind policy.
const (
	bCapture = iota
	bCastle
	bEP
	bPromo
	bCheck
	bRights     // king or rook move while holding the corresponding right
	bRookHome   // capture on a1/h1/a8/h8
	bUndo       // takes back my previous move (from<->to)
	bPawn       // pawn push
	bQuiet      // everything else
	numBuckets
)

// Policy is a weight per move-kind bucket.
type Policy [numBuckets]int

var policies = []Policy{
	{3, 8, 8, 6, 3, 4, 6, 1, 2, 3},  // specials first
	{1, 1, 1, 1, 1, 1, 1, 1, 1, 1},  // flat over kinds
	{0, 0, 0, 0, 1, 1, 0, 12, 0, 6}, // shuffling: repetitions and the fifty-move clock
	{8, 2, 4, 4, 2, 1, 8, 0, 1, 1},  // capture happy: reaches low material
	{1, 6, 2, 2, 1, 8, 8, 3, 1, 4},  // rights churn
	{0, 1, 0, 1, 2, 0, 0, 2, 0, 8},  // quiet play
}

// DrawPolicy draws one of the profiles or a random weight vector.
func DrawPolicy(t *rapid.T) Policy {
	i := rapid.IntRange(0, len(policies)).Draw(t, "policy")
	if i < len(policies) {
		return policies[i]
	}
	var p Policy
	for k := range p {
		p[k] = rapid.IntRange(0, 8).Draw(t, "w")
	}
	p[bQuiet]++ // never all zero
	return p
}

func isHome(sq int8) bool {
	return sq == oracle.A1 || sq == oracle.H1 || sq == oracle.A8 || sq == oracle.H8
}

func bucketOf(p *oracle.Pos, m oracle.Move, prevOwn *oracle.Move) int {
	switch {
	case m.Kind == oracle.CastleK || m.Kind == oracle.CastleQ:
		return bCastle
	case m.Kind == oracle.EnPassant:
		return bEP
	case m.Kind == oracle.Promo || m.Kind == oracle.CapturePromo:
		return bPromo
	case m.Captured != 0 && isHome(m.To):
		return bRookHome
	case m.Captured != 0:
		return bCapture
	}
	if prevOwn != nil && prevOwn.From == m.To && prevOwn.To == m.From {
		return bUndo
	}
	if m.Piece == oracle.King || m.Piece == oracle.Rook {
		var has bool
		if p.White {
			has = (m.Piece == oracle.King && (p.WK || p.WQ)) || (m.From == oracle.A1 && p.WQ) || (m.From == oracle.H1 && p.WK)
		} else {
			has = (m.Piece == oracle.King && (p.BK || p.BQ)) || (m.From == oracle.A8 && p.BQ) || (m.From == oracle.H8 && p.BK)
		}
		if has {
			return bRights
		}
	}
	n := p.Make(m)
	if n.InCheck(n.White) {
		return bCheck
	}
	if m.Piece == oracle.Pawn {
		return bPawn
	}
	return bQuiet
}

// PickMove draws one legal move of the current position by the policy.
func PickMove(t *rapid.T, g *oracle.Game, pol Policy) (oracle.Move, bool) {
	cur := &g.Cur().Pos
	legal := cur.Legal()
	if len(legal) == 0 {
		return oracle.Move{}, false
	}
	var prevOwn *oracle.Move
	if n := len(g.Moves); n >= 2 {
		prevOwn = &g.Moves[n-2]
	}
	var buckets [numBuckets][]oracle.Move
	for _, m := range legal {
		b := bucketOf(cur, m, prevOwn)
		buckets[b] = append(buckets[b], m)
	}
	total := 0
	for b := range buckets {
		if len(buckets[b]) > 0 {
			total += pol[b]
		}
	}
	if total == 0 {
		return legal[rapid.IntRange(0, len(legal)-1).Draw(t, "mv")], true
	}
	x := rapid.IntRange(0, total-1).Draw(t, "kind")
	for b := range buckets {
		if len(buckets[b]) == 0 {
			continue
		}
		if x < pol[b] {
			return buckets[b][rapid.IntRange(0, len(buckets[b])-1).Draw(t, "mv")], true
		}
		x -= pol[b]
	}
	return legal[0], true
}

// Start draws a start position: the initial position, a pool member or a synthetic one.
func Start(t *rapid.T) oracle.State {
	switch k := rapid.IntRange(0, 9).Draw(t, "startkind"); {
	case k <= 2:
		return oracle.MustFEN(oracle.InitialFEN)
	case k <= 7:
		return oracle.MustFEN(Pool[rapid.IntRange(0, len(Pool)-1).Draw(t, "pool")])
	default:
		return Synth(t)
	}
}

// Play draws a game of up to maxPlies from start.
func Play(t *rapid.T, start oracle.State, maxPlies int, pol Policy) (GameCase, *oracle.Game) {
	g := oracle.NewGame(start)
	gc := GameCase{FEN: start.FEN()}
	n := rapid.IntRange(0, maxPlies).Draw(t, "plies")
	for i := 0; i < n; i++ {
		m, ok := PickMove(t, g, pol)
		if !ok {
			break
		}
		g.Push(m)
		gc.Moves = append(gc.Moves, m.String())
	}
	return gc, g
}

// Game draws start, policy and moves.
func Game(t *rapid.T, maxPlies int) (GameCase, *oracle.Game) {
	return Play(t, Start(t), maxPlies, DrawPolicy(t))
}

// History draws a game aimed at the draw rules: shuffling policy most of the time, clocks
// carried in from the FEN.
func History(t *rapid.T, maxPlies int) (GameCase, *oracle.Game) {
	st := Start(t)
	if rapid.IntRange(0, 2).Draw(t, "clockkind") > 0 {
		st.Half = rapid.SampledFrom([]int{0, 1, 40, 90, 95, 96, 97, 98, 99}).Draw(t, "half")
		st.Full = rapid.SampledFrom([]int{1, 2, 30, 80}).Draw(t, "full")
	}
	pol := policies[2]
	switch rapid.IntRange(0, 5).Draw(t, "histpolicy") {
	case 0:
		pol = DrawPolicy(t)
	case 1:
		pol = policies[5]
	case 2:
		pol = policies[3]
	}
	return Play(t, st, maxPlies, pol)
}

var synthKinds = []int8{oracle.Pawn, oracle.Pawn, oracle.Pawn, oracle.Knight, oracle.Bishop, oracle.Rook, oracle.Queen,
	oracle.Knight, oracle.Bishop, oracle.Rook}

// SynthStats counts constructive repairs made by Synth (reported in evidence).
var SynthStats struct{ Repaired, Total int64 }

// Synth draws a well-formed synthetic position "with odd material".
func Synth(t *rapid.T) oracle.State {
	var p oracle.Pos
	p.EP = -1
	wk := rapid.IntRange(0, 63).Draw(t, "wk")
	// sometimes keep the kings (and rooks) at home so that castling rights are available
	home := rapid.IntRange(0, 3).Draw(t, "home") == 0
	if home {
		wk = oracle.E1
	}
	var bkc []int
	for s := 0; s < 64; s++ {
		df, dr := oracle.File(s)-oracle.File(wk), oracle.Rank(s)-oracle.Rank(wk)
		if df >= -1 && df <= 1 && dr >= -1 && dr <= 1 {
			continue
		}
		bkc = append(bkc, s)
	}
	bk := bkc[rapid.IntRange(0, len(bkc)-1).Draw(t, "bk")]
	if home && rapid.Bool().Draw(t, "bkhome") {
		bk = oracle.E8
	}
	p.Sq[wk] = oracle.King
	p.Sq[bk] = -oracle.King
	if home {
		for _, s := range []int{oracle.A1, oracle.H1} {
			if rapid.IntRange(0, 3).Draw(t, "rookhome") > 0 && p.Sq[s] == 0 {
				p.Sq[s] = oracle.Rook
			}
		}
		if bk == oracle.E8 {
			for _, s := range []int{oracle.A8, oracle.H8} {
				if rapid.IntRange(0, 3).Draw(t, "rookhome") > 0 && p.Sq[s] == 0 {
					p.Sq[s] = -oracle.Rook
				}
			}
		}
	}
	n := rapid.IntRange(0, 14).Draw(t, "extra")
	for i := 0; i < n; i++ {
		var empty []int
		for s := 0; s < 64; s++ {
			if p.Sq[s] == 0 {
				empty = append(empty, s)
			}
		}
		s := empty[rapid.IntRange(0, len(empty)-1).Draw(t, "sq")]
		k := synthKinds[rapid.IntRange(0, len(synthKinds)-1).Draw(t, "kind")]
		if k == oracle.Pawn && (oracle.Rank(s) == 0 || oracle.Rank(s) == 7) {
			k = oracle.Knight
		}
		if rapid.Bool().Draw(t, "black") {
			k = -k
		}
		p.Sq[s] = k
	}
	p.White = rapid.Bool().Draw(t, "white")
	SynthStats.Total++
	// the side NOT to move must not be in check
	if p.InCheck(!p.White) {
		if !p.InCheck(p.White) {
			p.White = !p.White
		} else {
			SynthStats.Repaired++
			for p.InCheck(!p.White) {
				att := p.AttackersOf(p.KingSq(!p.White), p.White)
				p.Sq[att[0]] = 0
			}
		}
	}
	// castling rights only where king and rook stand at home
	if p.Sq[oracle.E1] == oracle.King {
		p.WK = p.Sq[oracle.H1] == oracle.Rook && rapid.Bool().Draw(t, "WK")
		p.WQ = p.Sq[oracle.A1] == oracle.Rook && rapid.Bool().Draw(t, "WQ")
	}
	if p.Sq[oracle.E8] == -oracle.King {
		p.BK = p.Sq[oracle.H8] == -oracle.Rook && rapid.Bool().Draw(t, "BK")
		p.BQ = p.Sq[oracle.A8] == -oracle.Rook && rapid.Bool().Draw(t, "BQ")
	}
	// e.p. target only where a double step can just have happened
	var eps []int
	for f := 0; f < 8; f++ {
		if p.White { // black pawn just went from rank 7 to rank 5
			if p.Sq[oracle.Sq(f, 4)] == -oracle.Pawn && p.Sq[oracle.Sq(f, 5)] == 0 && p.Sq[oracle.Sq(f, 6)] == 0 {
				eps = append(eps, oracle.Sq(f, 5))
			}
		} else {
			if p.Sq[oracle.Sq(f, 3)] == oracle.Pawn && p.Sq[oracle.Sq(f, 2)] == 0 && p.Sq[oracle.Sq(f, 1)] == 0 {
				eps = append(eps, oracle.Sq(f, 2))
			}
		}
	}
	if len(eps) > 0 && rapid.IntRange(0, 2).Draw(t, "useep") > 0 {
		p.EP = int8(eps[rapid.IntRange(0, len(eps)-1).Draw(t, "ep")])
		// usually put a pawn of the side to move beside the pawn that just jumped
		if rapid.IntRange(0, 3).Draw(t, "epattacker") > 0 {
			f, r, pc := oracle.File(int(p.EP)), 4, oracle.Pawn
			if !p.White {
				r, pc = 3, -oracle.Pawn
			}
			df := rapid.SampledFrom([]int{-1, 1}).Draw(t, "epside")
			if f+df >= 0 && f+df < 8 && p.Sq[oracle.Sq(f+df, r)] == 0 {
				p.Sq[oracle.Sq(f+df, r)] = pc
				if p.InCheck(!p.White) {
					p.Sq[oracle.Sq(f+df, r)] = 0
				}
			}
		}
	}
	return oracle.State{Pos: p, Half: rapid.SampledFrom([]int{0, 0, 3, 50, 99}).Draw(t, "shalf"), Full: rapid.SampledFrom([]int{1, 1, 12, 77}).Draw(t, "sfull")}
}

// EPCheck draws a position in which the side to move is in check from a pawn that has just
// made its double step, with an own pawn beside it that may capture en passant, and a
// crowded king neighbourhood (so that the e.p. capture is sometimes the only legal move).
func EPCheck(t *rapid.T) oracle.State {
	for try := 0; ; try++ {
		var p oracle.Pos
		p.White = true
		f := rapid.IntRange(0, 7).Draw(t, "epfile")
		dk := rapid.SampledFrom([]int{-1, 1}).Draw(t, "kingside")
		dp := rapid.SampledFrom([]int{-1, 1}).Draw(t, "pawnside")
		if f+dk < 0 || f+dk > 7 || f+dp < 0 || f+dp > 7 {
			continue
		}
		p.Sq[oracle.Sq(f, 4)] = -oracle.Pawn // just arrived from rank 7
		p.EP = int8(oracle.Sq(f, 5))
		wk := oracle.Sq(f+dk, 3)
		p.Sq[wk] = oracle.King
		p.Sq[oracle.Sq(f+dp, 4)] = oracle.Pawn
		// black king far enough away
		var cands []int
		for s := 0; s < 64; s++ {
			df, dr := oracle.File(s)-oracle.File(wk), oracle.Rank(s)-oracle.Rank(wk)
			if p.Sq[s] == 0 && (df < -1 || df > 1 || dr < -1 || dr > 1) && s != oracle.Sq(f, 5) && s != oracle.Sq(f, 6) {
				cands = append(cands, s)
			}
		}
		p.Sq[cands[rapid.IntRange(0, len(cands)-1).Draw(t, "bk")]] = -oracle.King
		// crowd the king: own blockers and enemy guards
		for _, d := range [][2]int{{1, 0}, {1, 1}, {0, 1}, {-1, 1}, {-1, 0}, {-1, -1}, {0, -1}, {1, -1}} {
			nf, nr := oracle.File(wk)+d[0], oracle.Rank(wk)+d[1]
			if nf < 0 || nf > 7 || nr < 0 || nr > 7 {
				continue
			}
			s := oracle.Sq(nf, nr)
			if p.Sq[s] != 0 || s == oracle.Sq(f, 5) || s == oracle.Sq(f, 6) {
				continue
			}
			switch rapid.IntRange(0, 3).Draw(t, "crowd") {
			case 0, 1:
				pc := rapid.SampledFrom([]int8{oracle.Pawn, oracle.Knight, oracle.Bishop, oracle.Rook}).Draw(t, "blocker")
				if pc == oracle.Pawn && (nr == 0 || nr == 7) {
					pc = oracle.Knight
				}
				p.Sq[s] = pc
			}
		}
		for i, n := 0, rapid.IntRange(0, 5).Draw(t, "guards"); i < n; i++ {
			var empty []int
			for s := 0; s < 64; s++ {
				if p.Sq[s] == 0 && s != oracle.Sq(f, 5) && s != oracle.Sq(f, 6) {
					empty = append(empty, s)
				}
			}
			s := empty[rapid.IntRange(0, len(empty)-1).Draw(t, "gsq")]
			pc := rapid.SampledFrom([]int8{oracle.Queen, oracle.Rook, oracle.Bishop, oracle.Knight, oracle.Pawn}).Draw(t, "guard")
			if pc == oracle.Pawn && (oracle.Rank(s) == 0 || oracle.Rank(s) == 7) {
				pc = oracle.Knight
			}
			p.Sq[s] = -pc
		}
		if p.InCheck(false) {
			continue
		}
		st := oracle.State{Pos: p, Half: 0, Full: 20}
		if rapid.Bool().Draw(t, "mirror") {
			st.Pos = p.Mirror()
		}
		return st
	}
}

// ManyMoves builds a well-formed odd-material position with as many moves for the side to move
// as a short hill-climb finds (8-14 queens plus rooks, bishops and knights; the other king is
// tucked into a corner behind its own men and is not in check): move lists beyond the usual
// bounds (218 legal moves with normal material, 256-entry buffers).
func ManyMoves(t *rapid.T) oracle.State {
	var p oracle.Pos
	p.EP = -1
	p.White = true
	// the opponent: king in the corner a1, shielded
	p.Sq[oracle.A1] = -oracle.King
	p.Sq[oracle.Sq(1, 0)] = -oracle.Rook
	p.Sq[oracle.Sq(0, 1)] = -oracle.Bishop
	p.Sq[oracle.Sq(1, 1)] = -oracle.Pawn
	var men []int8
	for i, n := 0, rapid.IntRange(9, 18).Draw(t, "queens"); i < n; i++ {
		men = append(men, oracle.Queen)
	}
	men = append(men, oracle.King, oracle.Rook, oracle.Rook, oracle.Bishop, oracle.Bishop)
	for i, n := 0, rapid.IntRange(0, 2).Draw(t, "knights"); i < n; i++ {
		men = append(men, oracle.Knight)
	}
	place := func(pc int8) int {
		for {
			s := rapid.IntRange(0, 63).Draw(t, "sq")
			if p.Sq[s] != 0 {
				continue
			}
			p.Sq[s] = pc
			if p.InCheck(false) || (pc == oracle.King && p.InCheck(true)) {
				p.Sq[s] = 0
				continue
			}
			return s
		}
	}
	at := make([]int, len(men))
	for i, pc := range men {
		at[i] = place(pc)
	}
	score := func() int { return len(p.PseudoLegal()) }
	best := score()
	for step, n := 0, rapid.IntRange(300, 900).Draw(t, "steps"); step < n; step++ {
		i := rapid.IntRange(0, len(men)-1).Draw(t, "man")
		to := rapid.IntRange(0, 63).Draw(t, "to")
		if p.Sq[to] != 0 {
			continue
		}
		from := at[i]
		p.Sq[from], p.Sq[to] = 0, men[i]
		if sc := score(); sc >= best && !p.InCheck(false) && !p.InCheck(true) {
			best, at[i] = sc, to
			continue
		}
		p.Sq[to], p.Sq[from] = 0, men[i]
	}
	// mirror / flip for variety
	if rapid.Bool().Draw(t, "flip") {
		q := p
		for s := 0; s < 64; s++ {
			q.Sq[oracle.Sq(7-oracle.File(s), oracle.Rank(s))] = p.Sq[s]
		}
		p = q
	}
	if rapid.Bool().Draw(t, "black") {
		p = p.Mirror()
	}
	return oracle.State{Pos: p, Half: 0, Full: 60}
}

// QueenStar: a queen with long open lines, most of which end on an enemy man (a queen's reach
// at its largest: up to 27 squares, up to 8 of them captures). Both kings stand off the lines;
// the side with the queen is to move, the other king is not in check.
func QueenStar(t *rapid.T) oracle.State {
	for try := 0; ; try++ {
		var p oracle.Pos
		p.EP = -1
		p.White = true
		qf, qr := rapid.IntRange(2, 5).Draw(t, "qf"), rapid.IntRange(2, 5).Draw(t, "qr")
		p.Sq[oracle.Sq(qf, qr)] = oracle.Queen
		onRay := map[int]bool{oracle.Sq(qf, qr): true}
		for _, d := range [][2]int{{1, 0}, {-1, 0}, {0, 1}, {0, -1}, {1, 1}, {1, -1}, {-1, 1}, {-1, -1}} {
			// the ray runs to the rim, or stops early
			var sqs []int
			for f, r := qf+d[0], qr+d[1]; f >= 0 && f < 8 && r >= 0 && r < 8; f, r = f+d[0], r+d[1] {
				sqs = append(sqs, oracle.Sq(f, r))
			}
			if len(sqs) == 0 {
				continue
			}
			n := len(sqs)
			if rapid.IntRange(0, 3).Draw(t, "short") == 0 {
				n = rapid.IntRange(1, len(sqs)).Draw(t, "len")
			}
			for _, s := range sqs {
				onRay[s] = true
			}
			if rapid.IntRange(0, 4).Draw(t, "target") > 0 {
				end := sqs[n-1]
				k := rapid.SampledFrom([]int8{oracle.Rook, oracle.Knight, oracle.Bishop, oracle.Pawn, oracle.Queen}).Draw(t, "kind")
				if k == oracle.Pawn && (oracle.Rank(end) == 0 || oracle.Rank(end) == 7) {
					k = oracle.Knight
				}
				p.Sq[end] = -k
			}
		}
		var free []int
		for s := 0; s < 64; s++ {
			if !onRay[s] && p.Sq[s] == 0 {
				free = append(free, s)
			}
		}
		if len(free) < 2 {
			continue
		}
		wk := free[rapid.IntRange(0, len(free)-1).Draw(t, "wk")]
		bk := free[rapid.IntRange(0, len(free)-1).Draw(t, "bk")]
		if df, dr := oracle.File(wk)-oracle.File(bk), oracle.Rank(wk)-oracle.Rank(bk); wk == bk || (df >= -1 && df <= 1 && dr >= -1 && dr <= 1) {
			continue
		}
		p.Sq[wk], p.Sq[bk] = oracle.King, -oracle.King
		if p.InCheck(false) {
			continue
		}
		if rapid.Bool().Draw(t, "black") {
			p = p.Mirror()
		}
		return oracle.State{Pos: p, Half: 0, Full: 30}
	}
}
