// Package gen holds the rapid generators shared by the checks.
package gen

// Pool is the seed pool: positions written for this task, aimed at the regions the
// properties name. Every entry is validated by TestPool (kings present, side not to move
// not in check, FEN canonical).
var Pool = []string{
	// the classical perft positions
	"rnbqkbnr/pppppppp/8/8/8/8/PPPPPPPP/RNBQKBNR w KQkq - 0 1",
	"r3k2r/p1ppqpb1/bn2pnp1/3PN3/1p2P3/2N2Q1p/PPPBBPPP/R3K2R w KQkq - 0 1",
	"8/2p5/3p4/KP5r/1R3p1k/8/4P1P1/8 w - - 0 1",
	"r3k2r/Pppp1ppp/1b3nbN/nP6/BBP1P3/q4N2/Pp1P2PP/R2Q1RK1 w kq - 0 1",
	"rnbq1k1r/pp1Pbppp/2p5/8/2B5/8/PPP1NnPP/RNBQK2R w KQ - 1 8",
	"r4rk1/1pp1qppp/p1np1n2/2b1p1B1/2B1P1b1/P1NP1N2/1PP1QPPP/R4RK1 w - - 0 10",
	// castling tangles
	"r3k2r/8/8/8/8/8/8/R3K2R w KQkq - 0 1",
	"r3k2r/8/8/8/8/8/8/R3K2R b KQkq - 0 1",
	"r3k2r/8/8/8/8/8/8/R3K2R w Kq - 3 20",
	"r3k2r/8/8/8/8/8/8/R3K2R b Qk - 7 31",
	"r3k2r/8/8/8/8/5q2/8/R3K2R w KQkq - 0 1",  // f1 attacked
	"r3k2r/8/8/8/8/3q4/8/R3K2R w KQkq - 0 1",  // d1 attacked
	"r3k2r/8/8/8/8/1q6/8/R3K2R w KQkq - 0 1",  // b1 attacked: queen side still allowed
	"r3k2r/8/8/4R3/8/8/8/R3K2R b KQkq - 0 1",  // black in check: no castling
	"r3k2r/8/8/8/8/8/6n1/R3K2R w KQkq - 0 1",  // knight attacks e1? (g2 attacks e1,e3): in check
	"r3k2r/p6p/8/8/8/8/P6P/R3K2R w KQkq - 0 1",
	"r3k2r/1P4P1/8/8/8/8/1p4p1/R3K2R w KQkq - 0 1", // promotions capturing rooks on home squares
	"r3k2r/1P4P1/8/8/8/8/1p4p1/R3K2R b KQkq - 0 1",
	"rn2k2r/8/8/8/8/8/8/RN2K2R w KQkq - 0 1", // b1/b8 occupied: queen side blocked
	"4k2r/8/8/8/8/8/8/R3K3 w Qk - 0 1",
	"r3k3/8/8/8/8/8/8/4K2R b Kq - 0 1",
	"r3k2r/8/8/8/8/8/8/R3K2R w - - 0 1", // no rights although everything is at home
	"1r2k2r/8/8/8/8/8/8/R3K1R1 w Qk - 0 1",
	// en passant
	"rnbqkbnr/ppp1p1pp/8/3pPp2/8/8/PPPP1PPP/RNBQKBNR w KQkq f6 0 3",
	"rnbqkbnr/pppp1ppp/8/8/3Pp3/8/PPP1PPPP/RNBQKBNR b KQkq d3 0 2",
	"8/8/8/8/k2Pp2Q/8/8/3K4 b - d3 0 1",   // e.p. would expose the king along the rank
	"8/8/8/K2pP2q/8/8/8/3k4 w - d6 0 1",   // same, colours swapped
	"4k3/8/8/2KpP2r/8/8/8/8 w - d6 0 1",
	"8/8/3p4/KPp4r/1R3p1k/8/4P1P1/8 w - c6 0 2",
	"8/2p5/3p4/KP5r/1R2Pp1k/8/6P1/8 b - e3 0 1",
	"4k3/8/8/8/1pPp4/8/8/4K3 b - c3 0 1", // two pawns can capture e.p.
	"4k3/8/8/3PpP2/8/8/8/4K3 w - e6 0 1",
	"k7/8/8/8/4Pp2/8/8/4K2b b - e3 0 1",
	"4k3/8/8/8/4Pp2/8/8/4KB1r b - e3 0 1",
	"2b1k3/8/8/4pP2/8/8/8/4K3 w - e6 0 1",
	// promotion races
	"8/P6k/8/8/8/8/p6K/8 w - - 0 1",
	"n1n5/PPPk4/8/8/8/8/4Kppp/5N1N b - - 0 1",
	"r1b1k3/1P6/8/8/8/8/6p1/3K1B1R w - - 0 1",
	"4k3/6P1/8/8/8/8/1p6/R3K2r w Q - 0 1",
	"8/4P1k1/8/8/8/8/1K1p4/8 w - - 10 40",
	"3q4/4P1k1/8/8/8/8/1K1p4/4Q3 w - - 10 40",
	// low material: mates, stalemates, insufficient material
	"8/8/8/8/8/4k3/8/4K2Q w - - 0 1",
	"8/8/8/8/8/4k3/8/4K2R w - - 0 1",
	"4k3/8/4K3/8/8/8/8/7Q w - - 0 1",
	"5k2/8/5K2/8/8/8/8/R7 b - - 0 1",
	"7k/8/5K2/8/8/8/8/R7 w - - 0 1",
	"k7/8/1K6/8/8/8/8/1Q6 b - - 0 1",
	"7k/5Q2/6K1/8/8/8/8/8 b - - 0 1",  // stalemate
	"8/8/8/8/8/2k5/1b6/K7 w - - 0 1",
	"8/8/8/8/8/1nk5/8/K1B5 w - - 0 1",
	"8/8/8/3k4/8/2KB4/8/5b2 w - - 0 1",   // bishops d3/f1: same colour
	"8/8/8/3k4/8/2KB4/8/4b3 w - - 0 1",   // bishops d3/e1: opposite colours
	"8/8/8/3k4/8/2KB1r2/8/4b3 w - - 0 1", // a capture leaves KB v KB
	"8/8/8/3k4/8/2KBB3/8/5n2 w - - 0 1",
	"8/8/8/3k4/8/2KN1n2/8/8 w - - 0 1",
	"8/8/8/3k4/8/2K2p2/4N3/8 w - - 0 1",
	"8/8/8/3k4/1p6/2K5/8/8 w - - 0 1", // capture leaves K v K
	"8/5P2/8/3k4/8/2K5/8/8 w - - 0 1", // under-promotion leaves K+minor v K
	"3r4/4P3/8/3k4/8/2K5/8/8 w - - 0 1", // a CAPTURING under-promotion leaves K+minor v K
	"8/8/2k5/8/3K4/8/4p3/3R4 b - - 0 1",  // the same for Black
	"3b4/4P2k/8/8/8/8/8/2K2B2 w - - 0 1", // exd8=B leaves two bishops: d8 dark, f1 light -> not insufficient
	"3b4/4P2k/8/8/8/8/8/2K1B3 w - - 0 1", // exd8=B with the other bishop on e1 (dark): same colour -> insufficient
	"8/8/8/8/8/5k2/5p2/5K2 w - - 0 1",
	"8/8/1KB5/8/8/N7/8/k7 w - - 0 1",
	"4k3/8/8/8/8/8/4P3/4K3 w - - 0 1",
	// high clocks, repetition candidates
	"r1bqkbnr/pppp1ppp/2n5/4p3/4P3/5N2/PPPP1PPP/RNBQKB1R w KQkq - 2 3",
	"8/8/4k3/8/8/3K4/8/R7 w - - 96 80",
	"8/8/4k3/8/8/3K4/8/R7 b - - 99 80",
	"8/6p1/4k3/8/8/3K4/P7/R7 w - - 98 70",
	"r3k2r/pppq1ppp/2npbn2/2b1p3/2B1P3/2NPBN2/PPPQ1PPP/R3K2R w KQkq - 8 9",
	"r3k2r/pppq1ppp/2npbn2/2b1p3/2B1P3/2NPBN2/PPPQ1PPP/R3K2R b KQkq - 95 60",
	// pinned-piece clusters, checks, double checks
	"4k3/4r3/8/b7/8/2N5/4B3/r2QK3 w - - 0 1",
	"4k3/8/8/8/7b/8/3PPP2/r2QKB1q w - - 0 1",
	"rnb1kbnr/pppp1ppp/8/4p3/6Pq/5P2/PPPPP2P/RNBQKBNR w KQkq - 1 3", // fool's mate: checkmated
	"r1bqkb1r/pppp1Qpp/2n2n2/4p3/2B1P3/8/PPPP1PPP/RNB1K1NR b KQkq - 0 4", // scholar's mate
	"4k3/8/8/8/8/5n2/8/3RK2r w - - 0 1",
	"1k6/8/8/8/8/8/4n3/R3K2R w KQ - 0 1",
	"3rk3/8/8/8/8/8/3R4/3K4 w - - 0 1",
	"r2qk2r/ppp2ppp/2n5/1B1pp3/1b1PP1b1/2N2N2/PPP2PPP/R2QK2R w KQkq - 4 8",
	"8/8/8/2k5/4Pp2/8/8/B3K3 b - e3 0 1", // e.p. capture that is a discovered-check evasion? (Ba1 checks c... no) plain
	"6k1/5ppp/8/8/8/8/5PPP/3R2K1 w - - 0 1",
	"6k1/5ppp/8/8/8/8/r4PPP/6K1 b - - 0 1",
	// odd material
	"QQQ5/6k1/8/8/8/8/8/4K3 w - - 0 1",
	"nnnnknnn/8/8/8/8/8/8/4K3 b - - 0 1",
	"4k3/pppppppp/8/8/8/8/8/BBBBKBBB w - - 0 1",
}
