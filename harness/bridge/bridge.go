// Package bridge converts between the oracle's types and the repository's types.
package bridge

import (
	"fmt"

	"github.com/herohde/morlock/pkg/board"
	"verifharness/oracle"
)

// Sq converts an oracle square (a1=0..h8=63, file-major) to a repo square (h1=0..a8=63).
func Sq(s int) board.Square {
	return board.Square(8*oracle.Rank(s) + (7 - oracle.File(s)))
}

// OSq converts a repo square to an oracle square.
func OSq(s board.Square) int {
	return oracle.Sq(7-int(s&7), int(s>>3))
}

// Piece converts an oracle colourless piece kind to the repo's.
func Piece(k int8) board.Piece {
	switch k {
	case oracle.Pawn:
		return board.Pawn
	case oracle.Knight:
		return board.Knight
	case oracle.Bishop:
		return board.Bishop
	case oracle.Rook:
		return board.Rook
	case oracle.Queen:
		return board.Queen
	case oracle.King:
		return board.King
	}
	return board.NoPiece
}

// OPiece converts a repo piece kind to the oracle's.
func OPiece(p board.Piece) int8 {
	switch p {
	case board.Pawn:
		return oracle.Pawn
	case board.Knight:
		return oracle.Knight
	case board.Bishop:
		return oracle.Bishop
	case board.Rook:
		return oracle.Rook
	case board.Queen:
		return oracle.Queen
	case board.King:
		return oracle.King
	}
	return 0
}

func Color(white bool) board.Color {
	if white {
		return board.White
	}
	return board.Black
}

// MoveType is the repo move type the oracle's classification corresponds to.
func MoveType(k oracle.Kind) board.MoveType {
	switch k {
	case oracle.Quiet:
		return board.Normal
	case oracle.PawnPush:
		return board.Push
	case oracle.DoublePush:
		return board.Jump
	case oracle.EnPassant:
		return board.EnPassant
	case oracle.CastleQ:
		return board.QueenSideCastle
	case oracle.CastleK:
		return board.KingSideCastle
	case oracle.Capture:
		return board.Capture
	case oracle.Promo:
		return board.Promotion
	case oracle.CapturePromo:
		return board.CapturePromotion
	}
	return 0
}

func Castling(p *oracle.Pos) board.Castling {
	var c board.Castling
	if p.WK {
		c |= board.WhiteKingSideCastle
	}
	if p.WQ {
		c |= board.WhiteQueenSideCastle
	}
	if p.BK {
		c |= board.BlackKingSideCastle
	}
	if p.BQ {
		c |= board.BlackQueenSideCastle
	}
	return c
}

// Position builds a repo position from an oracle position through board.NewPosition.
func Position(p *oracle.Pos) (*board.Position, error) {
	var pl []board.Placement
	for s := 0; s < 64; s++ {
		pc := p.Sq[s]
		if pc == 0 {
			continue
		}
		c := board.White
		k := pc
		if pc < 0 {
			c = board.Black
			k = -pc
		}
		pl = append(pl, board.Placement{Square: Sq(s), Color: c, Piece: Piece(k)})
	}
	ep := board.ZeroSquare
	if p.EP >= 0 {
		ep = Sq(int(p.EP))
	}
	return board.NewPosition(pl, Castling(p), ep)
}

// Board builds a repo game board from an oracle state.
func Board(zt *board.ZobristTable, st oracle.State) *board.Board {
	pos, err := Position(&st.Pos)
	if err != nil {
		panic(fmt.Sprintf("bridge: %v", err))
	}
	return board.NewBoard(zt, pos, Color(st.Pos.White), st.Half, st.Full)
}

// OPos reads a repo position back into an oracle position using only Square(), Castling()
// and EnPassant().
func OPos(pos *board.Position, turn board.Color) oracle.Pos {
	var p oracle.Pos
	for s := board.ZeroSquare; s < board.NumSquares; s++ {
		c, pc, ok := pos.Square(s)
		if !ok {
			continue
		}
		k := OPiece(pc)
		if c == board.Black {
			k = -k
		}
		p.Sq[OSq(s)] = k
	}
	p.White = turn == board.White
	c := pos.Castling()
	p.WK = c&board.WhiteKingSideCastle != 0
	p.WQ = c&board.WhiteQueenSideCastle != 0
	p.BK = c&board.BlackKingSideCastle != 0
	p.BQ = c&board.BlackQueenSideCastle != 0
	p.EP = -1
	if ep, ok := pos.EnPassant(); ok {
		p.EP = int8(OSq(ep))
	}
	return p
}

// Key identifies a move by origin, destination and promotion piece in oracle terms.
type Key struct {
	From, To int8
	Promo    int8
}

func KeyOf(m oracle.Move) Key { return Key{m.From, m.To, m.Promo} }

func KeyOfRepo(m board.Move) Key {
	return Key{int8(OSq(m.From)), int8(OSq(m.To)), OPiece(m.Promotion)}
}

// FindRepoMove finds the repo's own (pseudo-legal, fully annotated) move with the same
// origin, destination and promotion as the oracle move.
func FindRepoMove(pos *board.Position, turn board.Color, om oracle.Move) (board.Move, bool) {
	k := KeyOf(om)
	for _, m := range pos.PseudoLegalMoves(turn) {
		if KeyOfRepo(m) == k {
			return m, true
		}
	}
	return board.Move{}, false
}

// Text is the coordinate text of a repo move.
func Text(m board.Move) string {
	s := oracle.SqName(OSq(m.From)) + oracle.SqName(OSq(m.To))
	switch m.Promotion {
	case board.Queen:
		s += "q"
	case board.Rook:
		s += "r"
	case board.Knight:
		s += "n"
	case board.Bishop:
		s += "b"
	}
	return s
}
