"""Per-property run definitions for ./check (what to run, how to shard, what the counts mean)."""

COMMON_ASSUMPTIONS = [
    "the independent rules oracle in harness/oracle (validated by published perft counts at every run) is correct chess",
    "rapid's generators explore the stated domain; absence of a counterexample is not a proof",
]

PROPS = {
    "C09": {
        "title": "score order",
        "run": "^TestC09_",
        "level": "exploration",
        "exhaustive": False,
        "shards": 8,
        "timeout": 300,
        "rule": "pairs and triples of scores judged against the specification rank (lost < mated sooner < mated later < "
                "heuristic by number < mate later < mate sooner < won): C09/discrete enumerates ALL pairs of discrete scores "
                "(won, lost, mate in +-1..127; 256^2 pairs, each with a swept third element) and all triples over a 21-score "
                "reduced set - exhaustive for that finite part; C09/mixed draws triples mixing float32 heuristic values "
                "(0, -0, subnormal, +-max, +-Inf, random bit patterns; NaN excluded) with discrete scores. Non-trivial = the "
                "pair/triple involves at least one mate score (discrete) or a mate score together with a heuristic value "
                "(mixed); distinct = distinct score tuples.",
        "assumptions": COMMON_ASSUMPTIONS + [
            "mate distance 0 and NaN evaluations are outside the domain; the increment law is judged for |k| <= 126 (int8 distance)"],
        "level_text": "Exploration with an exhaustive core: every pair of the 256 discrete scores and 60k generated float/discrete "
                      "triples per quick run are compared with a rank function written from the property text; order, reversal under "
                      "negation, increment monotonicity and Max/Min are all judged on each tuple.",
        "level_note": "Trusted: the 30-line specification rank in harness/refsearch/value.go. Float part is sampled, not exhaustive.",
        "technique": "property-based testing (rapid) + exhaustive enumeration of the discrete scores against a specification rank oracle",
    },
}

# Properties not claimed, with the reason (kept current).
NOT_APPLICABLE = {}
