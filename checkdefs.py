"""Per-property run definitions for ./check (what to run, how to shard, what the counts mean)."""

COMMON_ASSUMPTIONS = [
    "the independent rules oracle in harness/oracle (validated by published perft counts at every run) is correct chess",
    "rapid's generators explore the stated domain; absence of a counterexample is not a proof",
]

PROPS = {
    "C09": {
        "title": "score order",
        "run": "^TestC09_",
        "level": "exploration",
        "exhaustive": False,
        "shards": 8,
        "timeout": 300,
        "rule": "pairs and triples of scores judged against the specification rank (lost < mated sooner < mated later < "
                "heuristic by number < mate later < mate sooner < won): C09/discrete enumerates ALL pairs of discrete scores "
                "(won, lost, mate in +-1..127; 256^2 pairs, each with a swept third element) and all triples over a 21-score "
                "reduced set - exhaustive for that finite part; C09/mixed draws triples mixing float32 heuristic values "
                "(0, -0, subnormal, +-max, +-Inf, random bit patterns; NaN excluded) with discrete scores. Non-trivial = the "
                "pair/triple involves at least one mate score (discrete) or a mate score together with a heuristic value "
                "(mixed); distinct = distinct score tuples. "
                "Being mated in 128 plies (int8 -128, no counterpart on the mating side) is part of the domain of the order, transitivity, increment (-127 -> -128) and Max/Min laws; only the negation law is not asked of it. "
                "Law 0: HeuristicScore(f) is the heuristic value f for every float. A third of the mixed triples apply a chain of 1-4 operations (increment, decrement, negate) to the first score before the laws are judged.",
        "assumptions": COMMON_ASSUMPTIONS + [
            "mate distance 0 and NaN evaluations are outside the domain; the increment law is judged for |k| <= 126 (int8 distance)"],
        "level_text": "Exploration with an exhaustive core: every pair of the 256 discrete scores and 60k generated float/discrete "
                      "triples per quick run are compared with a rank function written from the property text; order, reversal under "
                      "negation, increment monotonicity and Max/Min are all judged on each tuple.",
        "level_note": "Trusted: the 30-line specification rank in harness/refsearch/value.go. Float part is sampled, not exhaustive.",
        "technique": "property-based testing (rapid) + exhaustive enumeration of the discrete scores against a specification rank oracle",
    },
    "C01": {
        "title": "legal move generation = FIDE legal moves",
        "run": "^TestC01_",
        "level": "exploration",
        "shards": 16,
        "engines": True,
        "timeout": 420,
        "thorough_scale": 15,
        "rule": "C01/walk: every node of generated games (initial position, 80-position seed pool, synthetic starts; move choice "
                "biased towards castling, e.p., promotions, checks, rook-home captures) - engine LegalMoves, the ok-flag of "
                "Position.Move and Board.PushMove for every pseudo-legal move, and the type/piece/capture/promotion metadata of "
                "every legal move are compared with the independent mailbox oracle. C01/synth: synthetic odd-material positions. "
                "C01/perft: differential divide-perft depth 2 (quick) / 2-3 (thorough). C01/perftbin: the real cmd/perft binary built from the working tree, depth 1-3 on generated roots, against the oracle's node counts. Non-trivial = distinct positions (placement, "
                "side, rights, e.p.) where pseudo-legal != legal (pin, check evasion, king walking into attack) or a castle / e.p. / "
                "promotion is pseudo-legally available; perft: subtree > 100 nodes. evaluations = positions judged. "
                "One synthetic position in 25 comes from gen.ManyMoves (9-18 queens plus rooks, bishops, knights, hill-climbed for mobility; labels count positions with more than 150 / 218 / 256 pseudo-legal moves). C01/parallel: 2-8 goroutines generate the legal and pseudo-legal moves of different positions at the same time, each list judged against the rules. "
                "C01/coldstart: at the top of every shard process, before anything else has used the repository's code, 12 goroutines released together make the first use of the board package (positions, legal moves, successors, checks, a Zobrist table of a fresh seed, boards) on 8 fixed slider-heavy positions; answers are judged against the oracle. One trial per shard; no random choice (the schedule is the operating system's). C01 reports the move lists.",
        "assumptions": COMMON_ASSUMPTIONS + ["only the side to move is judged; for e.p. the capture field may be unset or Pawn (documented 'not set')"],
        "level_text": "Exploration: tens of thousands of positions per quick run, each compared move-by-move (set equality both "
                      "directions, duplicates, legality flag, metadata) with an oracle that shares no code with the repository; "
                      "differential perft over generated roots reaches positions the six classical perft trees do not.",
        "level_note": "Trusted: harness/oracle (mailbox rules, perft-validated on the six classical positions at every run) and harness/bridge.",
        "technique": "property-based testing (rapid): generated games and synthetic positions, differential oracle + differential perft",
    },
    "C02": {
        "title": "successor position",
        "run": "^TestC02_",
        "level": "exploration",
        "shards": 16,
        "timeout": 420,
        "thorough_scale": 12,
        "rule": "C02/walk: generated games followed at the Position level on the position objects the engine itself derives; after "
                "every move (and for every other legal move at each node, one step deep) placement, castling rights and e.p. target "
                "are compared with the oracle successor, fen.Encode with the oracle FEN, all views with each other (Square vs 12 piece "
                "sets vs colour sets vs occupancy vs IsEmpty, disjointness, Rotated()==NewRotatedBitboard(All())), IsAttacked/IsDefended "
                "for all 64 squares x 2 colours with the oracle attack relation along the main line, and the receiver with a copy taken "
                "before. C02/synth: every legal move of synthetic positions. Non-trivial = distinct (position, move) where the move is "
                "a castle / e.p. / promotion / double step, clears an e.p. target or changes castling rights; plus sequences >= 10 plies. "
                "evaluations = (position, move) pairs judged. "
                "C02/coldstart: at the top of every shard process, before anything else has used the repository's code, 12 goroutines released together make the first use of the board package (positions, legal moves, successors, checks, a Zobrist table of a fresh seed, boards) on 8 fixed slider-heavy positions; answers are judged against the oracle. One trial per shard; no random choice (the schedule is the operating system's). C02 reports accepted/refused successors. The coordinate text of every legal move must pick out exactly that generated move (Equals both ways round). "
                "The text of a legal move with its promotion suffix altered (added, dropped or changed) must equal no generated move.",
        "assumptions": COMMON_ASSUMPTIONS + ["e.p. target is set after every double step (the convention the repository documents and C05 uses)"],
        "level_text": "Exploration: hundreds of thousands of (position, move) pairs per quick run against the oracle successor, with "
                      "cross-view consistency and the full attack relation re-checked on incrementally derived positions so that a "
                      "desynchronised redundant view is caught moves later.",
        "level_note": "Trusted: harness/oracle Make/Attacked and harness/bridge; Position compared by value.",
        "technique": "property-based testing (rapid): generated move sequences, oracle successor + cross-view invariants",
    },
    "C07": {
        "title": "incremental hash = hash from scratch",
        "run": "^TestC07_",
        "level": "exploration",
        "shards": 16,
        "timeout": 420,
        "thorough_scale": 12,
        "rule": "C07/walk: generated games with take-backs interleaved on boards built with drawn Zobrist seeds; after every push and "
                "pop Board.Hash() is compared with ZobristTable.Hash(position, turn) computed from scratch, any position revisited in "
                "the case must report its earlier hash and two different positions must not share one. C07/transposition: pairs of "
                "different move orders that the oracle says reach the same position, plus the same position set up directly with other "
                "clocks. C07/separation: a position and one single-component change (side, one right, e.p. file, piece added/removed/"
                "recoloured/retyped/moved) must hash differently. Non-trivial = distinct cases containing a castle, e.p., promotion, "
                "capture-promotion or rights change (walk); every transposition pair and separation pair. evaluations = cases. "
                "A third of the walks fork the board and operate on fork and origin alternately (both are judged after every operation: they are independent). C07/birthday: every distinct position met in 72k generated games (plus the neighbours of the final positions), hashed from scratch with one fixed table - about 140k positions per shard, capped at 400k: two different positions with one hash are reported as a C07/separation case (4e-9 for honest 64-bit keys at the cap; expected many times over for keys of 32 bits or fewer). "
                "C07/coldstart: at the top of every shard process, before anything else has used the repository's code, 12 goroutines released together make the first use of the board package (positions, legal moves, successors, checks, a Zobrist table of a fresh seed, boards) on 8 fixed slider-heavy positions; answers are judged against the oracle. One trial per shard; no random choice (the schedule is the operating system's). C07 reports hash = hash from scratch and equal hashes across the goroutines.",
        "assumptions": COMMON_ASSUMPTIONS + ["hash inequality is judged up to the 2^-64 coincidence the property allows"],
        "level_text": "Exploration: ~16k push/pop histories x (up to 70 ops) per quick run over several table seeds compare the "
                      "incremental hash with the from-scratch hash after every operation; path independence and separation are "
                      "checked directly as well.",
        "level_note": "Trusted: oracle position identity (placement, side, rights, e.p.); the repository's own from-scratch Hash is one side of the comparison, as the property states.",
        "technique": "property-based testing (rapid): stateful push/pop histories, round-trip (incremental vs scratch) and metamorphic (transposition, single-component change) oracles",
    },
    "C05": {
        "title": "game results",
        "run": "^TestC05_",
        "level": "exploration",
        "shards": 16,
        "timeout": 420,
        "thorough_scale": 12,
        "rule": "C05/history: generated game histories of 0-140 plies (shuffling / quiet / capture-happy move policies; start = initial "
                "position, seed pool incl. low-material endings, synthetic; half-move clock 0-99 and move number carried in from the FEN), "
                "a quarter of them forked at a drawn point with both boards continuing. After every PushMove: rule fired in the oracle "
                "game (>=3 occurrences counted over the whole game incl. the start position, clock >= 100 counting on from the set-up "
                "clock with only pawn moves and captures resetting it, insufficient material after a capture/under-promotion) => "
                "Result().Outcome == Draw; fifth occurrence => reason five-fold unless another rule holds; Draw => some rule has fired "
                "in this game; NoProgress() == oracle clock; no legal move => AdjudicateNoLegalMoves() = checkmate iff in check. "
                "Non-trivial = distinct histories in which a rule fires, is one step from firing (occurrence count 2, clock >= 95), "
                "ends in mate/stalemate, or leaves two opposite-coloured bishops; evaluations = histories. "
                "One third of the games have a spectator that asks every read-only question the board and position offer (check, mate, legal moves, hash, last move, ...) after every k-th ply; questions must not change the adjudication (label spectated-repetition-in-check counts repetitions of positions with the mover in check under a spectator).",
        "assumptions": COMMON_ASSUMPTIONS + ["a draw flag that stays set on later moves of the same game is allowed (the property only forbids a draw in a game where no rule has fired)"],
        "level_text": "Exploration: ~12k histories (about 700k pushes) per quick run judged after every move against the oracle's "
                      "game-level rules; generator labels show how often each rule and each awkward sub-case (first occurrence at "
                      "clock start, clock from FEN, across a fork, two bishops) actually occurred.",
        "level_note": "Trusted: oracle.Game (exact position comparison over the whole history, FIDE clock).",
        "technique": "property-based testing (rapid): generated histories with forks, model-based oracle (independent game-rules model), invariant after every step",
    },
    "C08": {
        "title": "take-back and fork",
        "run": "^TestC08_",
        "level": "exploration",
        "shards": 16,
        "timeout": 420,
        "thorough_scale": 12,
        "rule": "C08/history: generated programs of 1-120 operations over up to 4 boards: push (legal move drawn from the oracle), "
                "probe (push; take back; push again - must give the identical state), illegal (pseudo-legal but illegal move: must be "
                "refused and change nothing), pop (never below the fork point a board shares), pop on an empty history, fork. Model = "
                "per board a stack of snapshots of everything the board reports (position value, side, hash, half-move clock, ply, "
                "full moves, has-castled x2, last / second-to-last move, HasMoved(1/3/1000), String() with the result masked, drawn "
                "flag); after EVERY operation EVERY live board must equal the top of its own stack (isolation), a take-back must give "
                "a not-drawn result when the state before the move was not drawn, and C05's oracle judges every push (repetitions "
                "against the common past). Non-trivial = distinct programs with >= 2 take-backs at nesting >= 2, or a fork followed "
                "by operations on more than one board. evaluations = programs. "
                "After every successful take-back the result must be not-drawn, whatever the position returned to had been flagged with (label: take-backs onto positions that had been flagged drawn). "
                "Every position object a board hands out is remembered (up to 400 per case) with a copy of its value; none may ever change afterwards, whatever is taken back or played on any board.",
        "assumptions": COMMON_ASSUMPTIONS + ["boards do not take back below a fork point they share (documented precondition of Board.Fork)",
                                             "after a take-back from a state that was already flagged drawn the result may be either (the property only promises 'not drawn' when it was not drawn before)"],
        "level_text": "Exploration with a model: stateful operation sequences over several forked boards, an inverse (snapshot "
                      "stack) oracle after every step on every board, so an operation on one board that disturbs another is caught "
                      "at that step.",
        "level_note": "Trusted: snapshots are taken from the board itself (round-trip oracle); position identity and draw rules from harness/oracle.",
        "technique": "stateful / model-based property testing (rapid): generated push/pop/fork programs, snapshot-stack model, invariant after every step",
    },
    "C14": {
        "title": "FEN codec and reported FEN",
        "run": "^TestC14_",
        "level": "exploration",
        "shards": 16,
        "timeout": 420,
        "thorough_scale": 12,
        "rule": "C14/roundtrip: positions from generated games and synthetic odd-material positions x half-move clock 0..150 x move "
                "number 0..600: fen.Encode must equal the oracle's canonical FEN, decode(encode(x)) must be the identical position "
                "value / side / clocks, and decode of the canonical string re-encodes to the same string. C14/engine: programs of "
                "Reset(FEN with clock and move number, either side to move) / Move / TakeBack on an engine; after every operation "
                "Engine.Position() must be the standard FEN of the oracle game (clock = half-moves since last pawn move or capture, "
                "move number +1 after each Black move, both restored by take-back). Non-trivial = distinct positions with an e.p. "
                "square, partial rights, Black to move or unusual clocks (roundtrip); programs containing castling, capture + "
                "take-back, or a Black-to-move set-up (engine). evaluations = cases. "
                "C14/concurrent: one goroutine plays a generated line forward and takes it back 20-120 times while 1-4 goroutines call Engine.Position(); every FEN reported must be the standard FEN of one of the states of that game (the engine serialises its methods). "
                "C14/racingmoves: two moves offered by two goroutines at the same moment (20-200 repetitions per case); the reported FEN must be the outcome of playing the accepted moves in one of the two orders. "
                "FEN counters are drawn at the boundaries of the integer widths as well (127 .. 2^62+1 in the codec round trip, up to 2^31-1 in engine resets).",
        "assumptions": COMMON_ASSUMPTIONS + ["canonical FEN = the oracle's encoder (castling letters KQkq in that order, '-' when empty)"],
        "level_text": "Exploration: 40k generated positions with free clocks through both round-trips, and 8k engine programs "
                      "(~300k operations) compared with an independently maintained standard FEN after every step.",
        "level_note": "Trusted: harness/oracle FEN codec (self-tested round-trips) and game clock rules.",
        "technique": "property-based testing (rapid): round-trip oracle on generated positions, model-based oracle on Reset/Move/TakeBack programs",
    },
    "C06": {
        "title": "attack relation and derived queries",
        "run": "^TestC06_",
        "level": "exploration",
        "exhaustive": False,
        "shards": 16,
        "timeout": 420,
        "thorough_scale": 12,
        "rule": "C06/table (exhaustive, every run): for each of the 64 squares EVERY occupancy of the squares on its rank+file (2^14) "
                "for rooks and on its two diagonals (<= 2^13) for bishops, each looked up through NewRotatedBitboard with the square "
                "itself empty and occupied, and again with deterministic clutter off the lines (must not matter); queens on a quarter "
                "of those with on-line clutter; kings and knights on all squares; Attackboard dispatch must agree. Expected value = "
                "ray walk stopping at and including the first occupied square. C06/pawns: PawnCaptureboard for every single pawn and "
                "20k random pawn sets, both colours. C06/derived: generated game / synthetic positions: IsAttacked and IsDefended for "
                "64 squares x 2 colours, IsChecked, IsCheckMate, eval.FindCapture for every square and side (set of attackers with "
                "kind and colour), eval.FindPins against king and queen (set of attacker/pinned/target triples) vs their geometric "
                "definitions. Non-trivial: every (piece, square, line occupancy) of the table part is a distinct case by construction; "
                "derived = distinct positions with a check, a pin or a multiply-attacked square. "
                "C06/derived also asks IsAttackedBy / IsDefendedBy with four position-derived lists of piece kinds in shuffled order per position (all 64 squares, both colours). C06/parallel: 2-8 goroutines evaluate capture sets, pins, piece squares and legal moves of different positions at the same time; each must equal the definition (the queries are pure). "
                "C06/coldstart: at the top of every shard process, before anything else has used the repository's code, 12 goroutines released together make the first use of the board package (positions, legal moves, successors, checks, a Zobrist table of a fresh seed, boards) on 8 fixed slider-heavy positions; answers are judged against the oracle. One trial per shard; no random choice (the schedule is the operating system's). C06 reports IsChecked.",
        "assumptions": COMMON_ASSUMPTIONS + ["pins are judged for targets king and queen (the kinds the property names)"],
        "level_text": "The finite table part is enumerated completely on every run (about 1.6M distinct line occupancies, ~6M "
                      "lookups, seconds); the derived queries are explored on ~16k generated positions per quick run against "
                      "definitions written as ray walks on the mailbox.",
        "level_note": "Trusted: the ray walk in c06_test.go / harness/oracle. Sub-check C06/table reports exhaustive=true; the property as a whole stays 'exploration' because the derived queries range over all positions.",
        "technique": "exhaustive enumeration of line occupancies + property-based testing (rapid) of derived queries against geometric definitions",
    },
    "C19": {
        "title": "textual input is handled totally",
        "run": "^TestC19_",
        "level": "exploration",
        "shards": 16,
        "timeout": 420,
        "thorough_scale": 10,
        "fuzz": [("FuzzFEN", 150), ("FuzzMove", 45), ("FuzzEngineMove", 90)],
        "rule": "C19/fen: strings from a FEN-text generator (canonical FENs of pool/game/synthetic positions; hostile constants whose "
                "blank runs sum to 64 mod 256 or wrap onto occupied squares; digit runs incl. 0 and 9; Unicode digits/letters; 63/64/65/"
                "320/576/832-square boards; dropped/duplicated fields; tabs/newlines; signed, huge, fractional clocks; bad e.p. squares; "
                "odd castling/side fields; 1-4 random character edits; arbitrary strings): fen.Decode must not panic and must return an "
                "error OR a non-nil position whose views agree and whose re-encoding decodes to the same position/side/clocks. "
                "C19/move: ParseMove/ParseSquareStr on generated near-moves and arbitrary strings: error or valid squares, valid "
                "promotion piece, and the accepted text denotes exactly those squares. C19/enginemove: a generated game on an engine, "
                "then one string (legal move in either letter case, pseudo-legal illegal move, wrong/missing promotion letter, the "
                "opponent's move, arbitrary text): Engine.Move succeeds iff the lower-cased string is the coordinate text of an "
                "oracle-legal move; on rejection Engine.Position() and every board observable are unchanged. Thorough adds native "
                "coverage-guided fuzzing of the same three oracles. Non-trivial = distinct strings that pass the first syntactic gate "
                "(six space-separated fields / 4-5 runes), i.e. reach the arithmetic. evaluations = strings tried. "
                "C19/parallel: 2-8 goroutines decode different strings 200 times each at the same time; each must decode as it does alone. C19/engineseq contains Reset with arbitrary strings (hostile FEN text, well-formed FENs of positions with the opponent in check, valid FENs): rejected means nothing changes, accepted means the standard form of the string is the game. "
                "Move strings include a man moving onto a man of its own side (the king-onto-rook way of writing castling among them), in both letter cases.",
        "assumptions": COMMON_ASSUMPTIONS + ["both letter cases of file and promotion letters denote the same move (the parsers accept both by design)"],
        "level_text": "Exploration: ~140k generated strings per quick run, structured to pass the syntactic gates and reach the "
                      "square arithmetic, each judged by a round-trip / well-formedness / legality oracle; thorough adds ~5 min of "
                      "native coverage-guided fuzzing seeded with valid FENs and hostile constants.",
        "level_note": "Trusted: harness/oracle legality for Engine.Move; panics are caught in-process and reported with the input.",
        "technique": "property-based testing (rapid) with grammar-aware string generators + native go fuzzing (thorough), in-target round-trip and legality oracles",
    },
    "C03": {
        "title": "alpha-beta = exact minimax, sound PV, board handed back",
        "run": "^TestC03_",
        "level": "exploration",
        "shards": 16,
        "timeout": 600,
        "thorough_scale": 10,
        "thorough_timeout": 2400,
        "rule": "C03/minimax: (root = set-up position + generated history of 0-40 plies incl. shuffled histories with near-repetitions "
                "and high clocks, and K+pieces v K mating endings with the defending king near the edge; configuration in {material, "
                "synthetic position hash evaluator, no-under-promotion exploration, capture quiescence, BERNSTEIN plausible moves "
                "limit 1-9 + evaluation, TUROCHAMP evaluation + considerable-moves quiescence, SARGON points + one-ply-if-checked}; "
                "depth 1..6 chosen from the measured branching so that the reference stays under its node budget). The score of "
                "AlphaBeta.Search(ctx, EmptyContext, board, depth) must equal the value of an exhaustive negamax written on the oracle "
                "game (no pruning; drawn node = 0 by the oracle's rules, no legal move = lost/0, one ply added to mate distances going "
                "up, explored moves and leaf values obtained by calling the repository's exploration predicate and evaluator on a "
                "board kept in lock-step) under the specification order; PV legal in sequence, length <= depth, first move's "
                "reference value = root value, empty only if the root has no (explored) legal move or is drawn; everything the board "
                "reports identical before/after (truthful lazy adjudication of a root without moves allowed) and every legal root move "
                "played afterwards reports the same as on a board never searched. Non-trivial = distinct (root, history, config, depth) "
                "with depth >= 3, or a mate / stalemate / draw node inside the tree, or a mate-valued root. Over-budget and sticky-"
                "draw roots are discarded and counted. evaluations = searches compared. "
                "Configuration synth-quietnochecks: a selective main search whose exploration predicate inspects the board with the move made (captures, and quiet moves that do not give check).",
        "assumptions": COMMON_ASSUMPTIONS + ["roots whose draw flag was set by an earlier position of the game (not the current one) are skipped: the property leaves their value open",
                                             "the reference calls the repository's evaluator/exploration functions (the property says 'same explored moves, same leaf evaluation'); rules, draw detection, score order and tree walk are independent"],
        "level_text": "Exploration: thousands of searches per quick run, each compared with an independent exhaustive negamax; "
                      "the generator is aimed at mate-distance arithmetic (depth 4-6 in sparse endings), draws inside the tree and "
                      "selective explorations, which is where window/ordering errors live.",
        "level_note": "Trusted: harness/refsearch (negamax + specification order), harness/oracle game rules. Depth is bounded by the exhaustive reference (2-3 in middlegames, up to 6 in sparse endings).",
        "technique": "property-based testing (rapid): differential against an independent exhaustive reference search; PV validity predicate; before/after state invariant",
    },
    "C13": {
        "title": "a window only clips the true value",
        "run": "^TestC13_",
        "level": "exploration",
        "shards": 16,
        "timeout": 600,
        "thorough_scale": 10,
        "thorough_timeout": 2400,
        "rule": "C13/window: roots and configurations as in C03 (depth <= 4), each with a window (a, b) whose bounds are drawn relative "
                "to the true value v computed by the exhaustive reference: v itself, its immediate neighbours in the order (next "
                "float32 / one ply of mate distance), v shifted by -2..+3 plies or quarter pawns, mate / mated scores of distance "
                "1-9, won, lost, other heuristic values; a < b in the specification order. AlphaBeta.Search with Context{Alpha, Beta} "
                "(and, for quiescence configurations, Quiescence.QuietSearch called directly) must return r with r = v if a < v < b, "
                "v <= r <= a if v <= a, b <= r <= v if v >= b. C13/quiescence: full-window quiescence on generated and terminal "
                "positions never rates a position with a legal move below its static evaluation and rates checkmate / stalemate "
                "exactly. Non-trivial = distinct (root, depth, config, window) with a finite mate-distance bound or a bound adjacent "
                "or equal to v; quiescence cases all count. evaluations = windowed searches. "
                "Cases with a table run a full-window search of the same root on the same table after the windowed one; it must return the true value. "
                "A sixth of the cases leave one bound unset in the search context (a half-open window: an unset bound is no bound).",
        "assumptions": COMMON_ASSUMPTIONS + ["same reference and discards as C03"],
        "level_text": "Exploration: ~12k windowed searches per quick run judged by the three-way clip relation against an "
                      "independent exhaustive value, with windows aimed at the places where off-by-one-ply errors show (bounds one "
                      "and two plies either side of a mate value, bounds equal or adjacent to v).",
        "level_note": "Trusted: harness/refsearch value and order; window bounds are constructed from v by the check itself.",
        "technique": "property-based testing (rapid): metamorphic/differential - windowed search vs reference value under the clip relation",
    },
    "C11": {
        "title": "the transposition table is transparent",
        "run": "^TestC11_",
        "level": "exploration",
        "shards": 16,
        "timeout": 600,
        "thorough_scale": 10,
        "thorough_timeout": 2400,
        "rule": "C11/transparent: position-determined configurations only (material, synthetic position-hash evaluator, no-under-"
                "promotion exploration, capture quiescence, BERNSTEIN plausible moves + evaluation); roots from generated games, "
                "sparse boards and mating endings; real tables of 32 bytes (one slot), 64, 256, 4 KiB, 64 KiB and 4 MiB; SEQUENCES of "
                "searches sharing one table: iterative deepening 1..D (+ repeat), the same search twice then another depth, and "
                "successive positions of a game (search, play 1-2 moves, search again at D, D-1, D-2 ...). Every search of the "
                "sequence must return the exhaustive reference value (= the value without a table), a non-empty PV when the root has "
                "legal moves, and a first PV move whose reference value is the root value; a recording wrapper around the real table "
                "snapshots the game state at every store and a drawn sample of the EXACT stores is validated against the reference "
                "value of that position at that depth. Sequences whose reference trees contain a repetition or fifty-move draw, or "
                "whose roots are drawn, are discarded and counted (the property's precondition). Non-trivial = distinct (root, "
                "config, table size, sequence) in which at least one probe hit an entry (within a search or written by an earlier "
                "search of the sequence). C11/engine (table lifetime): ONE engine with Hash 1-2 MB plays 2-4 games (Reset, moves, "
                "one depth-limited analysis each) around the same position - as played, as a clean FEN, with a half-move clock of "
                "100-k (outside the property's scope), with evaluation noise (outside the scope); every in-scope analysis must "
                "report the exhaustive value and a best first move whatever the engine analysed before; non-trivial = a series "
                "with at least one in-scope analysis after another game. evaluations = sequences. C11/ponderseed: a real table seeded by a "
                "search restricted to ONE root move (search.Context.Ponder; any legal move, also one the exploration predicate rejects) at depth d1, "
                "then an ordinary search of the same root at depth d2 > d1 on that table: exhaustive value and a best explored first move; "
                "labelled by whether the predicate rejects the move.",
        "assumptions": COMMON_ASSUMPTIONS + ["table sizes >= 32 bytes (smaller sizes are not constructible: NewTranspositionTable panics)",
                                             "stored positions are re-valued without their history, which is sound under the property's no-repetition precondition"],
        "level_text": "Exploration: ~4k search sequences (~15k searches) per quick run, from one-slot to 4 MiB tables, each search "
                      "compared with an independent exhaustive value and the exact stores spot-checked; the sensitive shape "
                      "(one table shared over successive positions, varied leaf values) is generated by construction.",
        "level_note": "Trusted: harness/refsearch; recording wrapper delegates to the real table unchanged.",
        "technique": "property-based testing (rapid): differential (table vs reference/no table) over generated search sequences, recorded-store validation",
    },
    "C12": {
        "title": "halting a search at any instant is clean",
        "run": "^TestC12_",
        "level": "fault_enumeration",
        "shards": 16,
        "timeout": 600,
        "thorough_scale": 10,
        "thorough_timeout": 2400,
        "rule": "C12/halt: crash-point enumeration through an injected context.Context whose Done() counts cancellation polls and "
                "reports cancellation from the n-th poll on (every cancellation test in alpha-beta, quiescence and minimax is a Done() "
                "call). For a generated (root + history, configuration as in C03, depth, real table of 32 B..4 MiB): one clean run "
                "counts the polls P; then n ranges over ALL of 1..P when P <= 120 and over a drawn stride/offset (<= 120 points) "
                "otherwise. For each n: the call must return ErrHalted with no score, PV or node count; everything the board reports "
                "must be as before the call and every legal root move played afterwards must report the same as on a board never "
                "searched; and nothing is left behind: a following search on the SAME table (same root and depth / depth+1 / the "
                "position one move on) must return exactly the score it returns on a fresh table that never saw the halted search, "
                "equal to the exhaustive reference value, with a best first PV move; every exact store made AFTER the poll that "
                "reported cancellation (the recording table knows that instant) and a sample of the earlier ones must be the true "
                "value of its position at its depth. Table comparisons are made for position-determined configurations whose "
                "reference trees contain no repetition/fifty-move draw. Non-trivial = distinct (root, depth, config, table, n) "
                "cancellation points (counted individually) plus roots where at least one point fired with a move pushed. "
                "evaluations = roots. Restricted searches (search.Context.Ponder lines of 1-3 plies, run without a table as their only caller does): the "
                "caller's context must be what the caller built after the halt and the same restricted search run afterwards returns the "
                "unhalted value. C12/launchctx: an iterative analysis (searchctl.Iterative, gated) whose LAUNCH context is cancelled while "
                "iteration k is held at the gate, or at the n-th cancellation poll inside iteration k: nothing of the interrupted "
                "iteration is published, the stream ends, Halt() returns the last completed iteration. "
                "C12/iterhalt: an iterative analysis launched on a board the harness keeps, halted through Handle.Halt 0-2000 us after launch; the moment its stream closes the board must be back in the state it was handed over in.",
        "assumptions": COMMON_ASSUMPTIONS + ["cancellation is observed only through Done() polls (true for context.Context users); halting through searchctl's quit channel is exercised in C15/C16"],
        "level_text": "Fault enumeration: every cancellation poll of small searches, and a strided subset of larger ones (about "
                      "50k halting points per quick run), each followed by a search on the same table and compared with the run in "
                      "which the halted search never happened.",
        "level_note": "Trusted: harness/refsearch for the follow-up value and store validation; the poll-counting context.",
        "technique": "fault injection at every cancellation poll (enumerated), differential follow-up search on the same table, recorded-store validation",
    },
    "C15": {
        "title": "iterative deepening",
        "run": "^TestC15_",
        "level": "exploration",
        "shards": 16,
        "timeout": 600,
        "thorough_scale": 10,
        "thorough_timeout": 2400,
        "rule": "C15/iterative: (root + history incl. mate-in-n, mated and stalemated roots; configuration as in C03; depth limit "
                "1..cap or none; table off) through searchctl.Iterative.Launch and through Engine.Analyze (per-search limit or the "
                "engine's default depth option). The root search is wrapped by a harness search.Search that announces every "
                "iteration and can hold the goroutine before iteration k >= 2, so with the gate EVERY depth is observed and a halt is "
                "placed exactly while iteration k is pending. Oracle: depths 1,2,3,... strictly consecutive; each reported score and "
                "PV equal a direct fixed-depth search (separately constructed search object, fresh fork); the stream ends by itself "
                "exactly at min(limit, first depth whose score has mate distance <= depth), never earlier, and with neither it is "
                "still running when halted; Halt() returns depth >= 1, >= every depth reported before the call, equal to the direct "
                "search of that depth, with moves when the root has any; Engine.Position()/Board() unchanged by the analysis. A sixth "
                "of the cases are ungated with a real-time delay before Halt (increasing subsequence required instead of "
                "consecutive). C15/timecontrol: TimeControl.Limits over clocks 0..24 h, moves-to-go in {-1,0,1,2,3,10,40,10000}, both "
                "colours: 0 <= soft <= hard <= time left. Non-trivial: every iterative case (labelled by how it ended: limit / mate / "
                "halt / halt-ungated); time-control cases with moves-to-go != 0 or < 1 s left. evaluations = cases. "
                "C15/again: second and later analyses of an engine with Hash 0-2 MB, gated iteration by iteration: after a completed analysis of depth D (and 0-2 moves of its variation played) an analysis with limit L searches and reports depth 1, 2, ... in order and ends by itself exactly at L (or at a forced mate it reports itself); non-trivial = the first analysis reached depth >= 2. "
                "A quarter of the C15/iterative cases set a (generous) time-control option; a gated halt must cancel the context of the pending iteration within 5 s. C15/clock: 0-400 ms on both clocks with depth 1 held at the gate for 0-25 ms (the hard limit expires during depth 1): depth 1 must still be searched, reported faithfully and returned by Halt(). C15/halttwice: iteration k completes while a first Halt() is in progress (held at the gate's exit), is then reported; a second Halt() must not return anything shallower. C15/timecontrol draws moves-to-go over the whole int range (integer-width boundaries included). "
                "C15/clock also sets a depth limit far beyond what the clock allows in half of its cases: the clock still rules. "
                "C15/lag: (a) a reader that reads 0..L-1 reports promptly and then nothing until the analysis had time to end by itself: what it reads is in increasing depth order, faithful, and the LAST report before the stream closes (and Halt() afterwards) is the depth the analysis ends at; (b) Halt requested while depth 1 is pending, with a table whose Used() takes 0-8 ms: Halt returns depth 1, never the empty result. Non-trivial = (a) ends at depth >= 2 with a report left unread, (b) delay > 0.",
        "assumptions": COMMON_ASSUMPTIONS + ["node counts are not compared (the property names score and PV)", "liveness is judged with a 30 s grace period"],
        "level_text": "Exploration with a harness-owned schedule: ~3k analyses per quick run, every reported depth compared with "
                      "a direct search and the stop/halt rules checked at generated halt points; 40k time-control parameter sets.",
        "level_note": "Trusted: the gate wrapper (delegates to the real search), direct fixed-depth searches of the repository as the reference the property names.",
        "technique": "property-based testing (rapid) with a gated search injected into the iterative-deepening harness (harness-owned schedule); differential against direct searches",
    },
    "C18": {
        "title": "determinism and isolation",
        "run": "^TestC18_",
        "level": "exploration",
        "shards": 16,
        "timeout": 600,
        "thorough_scale": 10,
        "thorough_timeout": 2400,
        "rule": "C18/deterministic: (configuration incl. the four bundled engines' searches, root with history, depth) - the same "
                "search repeated on fresh forks; repeated after an unrelated search with the SAME search object (SARGON keeps per-"
                "search state) and with a separately constructed one; on a board built with a different Zobrist seed (table off); "
                "and run in a goroutine alongside 0-3 other searches on other engines' search objects, compared with the sequential "
                "results. Oracle: identical (score, PV, node count) in every comparison; the board the searches were forked from is "
                "unchanged. C18/engine: two engines with the same seed, noise setting (0/10/500/5000 millipawns) and the same "
                "search history must report identical final (score, PV, nodes) in each of 1-3 rounds; Engine.Position() and every "
                "Engine.Board() observable are identical before and after an analysis run to completion and after a halted "
                "unlimited analysis. Non-trivial = distinct cases with depth >= 2 and a root with history (deterministic), depth >= 2 "
                "(engine). evaluations = cases (each 6+ searches). "
                "C18/deterministic repeats a search restricted to a line (search.Context.Ponder) with the very same context: equal results, context unchanged. C18/otherengines: the same engine alone vs. with another engine (Hash 1-256 MB) analysing before or alongside. "
                "C18/engine with noise: a new game set up (Reset + moves) while an analysis is still running must then analyse exactly like a fresh engine with the same seed. "
                "The restricted search is also run by a search object that has never searched anything and by one whose previous search was of another root: same result.",
        "assumptions": COMMON_ASSUMPTIONS + ["searches are repeated on fresh forks of the same game state, as the engine does",
                                             "with noise on, only the last report of a finished analysis is compared (the PV channel keeps the latest report only)"],
        "level_text": "Exploration: ~4k search cases x 6-9 searches and 2.5k engine cases per quick run; metamorphic relations "
                      "(repeat, unrelated search in between, other seed, parallel execution, same noise seed) with exact equality "
                      "of score, PV and node count.",
        "level_note": "Trusted: nothing beyond equality of the repository's own outputs; goroutine scheduling in the parallel part is not owned by the harness.",
        "technique": "property-based testing (rapid): metamorphic relations (repeat / interleave / reseed / parallel) with exact-equality oracle",
    },
    "C10": {
        "title": "engine game = last position command",
        "run": "^TestC10_",
        "level": "exploration",
        "shards": 16,
        "timeout": 600,
        "thorough_scale": 10,
        "thorough_timeout": 2400,
        "rule": "C10/position: scripts of 2-8 position/ucinewgame commands sent to an in-process UCI driver; each follow-up is drawn "
                "as: verbatim repeat, extension by 1-3 moves, truncation, other line from a common prefix, fresh start position or FEN "
                "(with clocks and move numbers), a FEN that TEXTUALLY extends the previous one (longer last field, with or without "
                "the old moves), or ucinewgame. After every command (isready/readyok barrier): Engine.Position() must equal the "
                "oracle FEN of the game the last command describes; every observable of Engine.Board() (position, hash, clocks, ply, "
                "flags, last moves, String() incl. repetition count, result) must equal those of a FRESH engine+driver given only that "
                "command; after the final command 0-6 further moves are played on both boards in lock-step comparing everything after "
                "each (hidden repetition history) and judging results with the C05 oracle. A driver that shuts down or stops "
                "answering isready on a valid command is a violation. Non-trivial = distinct scripts of >= 2 commands in which at "
                "least one command textually continues the previous one (the driver's continuation shortcut is taken). "
                "evaluations = scripts. "
                "Asides: setoption (Hash, Noise, Depth, OwnBook, Ponder, unknown names, no arguments), debug, register, stop and unknown words are sent between position commands; the engine's game must stay the one the most recent position command describes (isready is interleaved after every command anyway). "
                "One case in six attaches the driver to an engine that was already used through its API (a second session on the same engine).",
        "assumptions": COMMON_ASSUMPTIONS + ["liveness judged with a 20 s grace period after a protocol barrier"],
        "level_text": "Exploration: ~5k command scripts per quick run, with a model-based oracle (the game the last command "
                      "describes) and a metamorphic one (incrementally extended engine vs fresh set-up of the same command).",
        "level_note": "Trusted: harness/oracle for the described game; a fresh engine+driver of the repository as the metamorphic twin.",
        "technique": "property-based testing (rapid): generated command scripts, model-based + metamorphic oracle (extension == set-up from scratch)",
    },
    "C04": {
        "title": "every go is answered by exactly one legal bestmove",
        "run": "^TestC04_",
        "level": "exploration",
        "shards": 16,
        "timeout": 900,
        "thorough_scale": 8,
        "thorough_timeout": 3000,
        "engines": True,
        "rule": "C04/bestmove (in-process): the four shipped engines re-wired from their exported parts as in cmd/*/main.go, x Hash "
                "0/1/16 MB x Noise 0/10/500 x OwnBook on/off; scripts of 1-4 rounds: [ucinewgame] position (opening/book territory, "
                "shuffled histories with claimable draws, endings near mate/stalemate, generated middlegames) or a repeated go on the "
                "same position; go in {depth n, movetime t, wtime/btime[/movestogo], depth+movetime (a timer that outlives its search), "
                "depth+clock, infinite, bare}; the search ends by itself or is stopped after a drawn real-time delay; searches that "
                "can only end by stop are always stopped. Oracle: between a go and the isready/readyok barrier after its end there is "
                "exactly one bestmove line, its move is legal (independent oracle) in the position last set up, '0000' only if that "
                "position has no legal move; a bestmove still missing 20 s after the search must have ended is reported; at quit the "
                "total number of bestmove lines equals the number of go commands. C04/blackbox: the real cmd/* binaries built from the "
                "working tree, driven over pipes with the same oracle. Non-trivial = distinct scripts in which a searched position "
                "has more than one legal move or a go is repeated on the same position. evaluations = scripts. "
                "Go lines include moves-to-go at the integer-width boundaries, negative moves-to-go, and non-positive move times (which are no move time). "
                "A fifth of the rounds change the Hash or Noise option in the middle of the game (the next go may come without a new position).",
        "assumptions": COMMON_ASSUMPTIONS + ["'ended' is decided by protocol (stop + isready/readyok processed, or the engine's own bestmove), with a 20 s grace period for liveness",
                                             "clock and movetime variants use real timers; the verdict depends only on count and legality of the answer"],
        "level_text": "Exploration: ~2.4k scripts (~6k go commands) per quick run in-process plus black-box runs of the real "
                      "binaries; count, legality and null-move rule are judged for every go.",
        "level_note": "Trusted: harness/oracle legality; in-process engines are wired by the harness like cmd/*/main.go (the black-box part covers the real wiring).",
        "technique": "property-based testing (rapid): generated UCI scripts against in-process drivers and the real binaries, protocol-barrier history oracle",
    },
    "C16": {
        "title": "UCI driver under any interleaving",
        "run": "^TestC16_",
        "level": "exploration",
        "shards": 16,
        "timeout": 900,
        "thorough_timeout": 3000,
        "race_thorough": True,
        "race_quick_scale": 0.1,
        "race_is_violation": True,
        "race_filter": "math/rand.(*Rand)",  # concurrent use of one rand.Rand corrupts it and can panic: a crash waiting to happen
        "thorough_scale": 3,
        "gomaxprocs": [16, 4, 1, 16, 2, 16, 8, 1],
        "rule": "C16/interleave: scripts of 2-25 actions against an in-process UCI driver whose engine searches through a harness "
                "search.Search that holds every analysis before each iteration >= 2 (depth 1 is never held, because Halt waits for "
                "it by design). Actions: commands (go depth/infinite/bare/movetime/clock, stop, isready, position, ucinewgame, "
                "setoption, unknown and malformed lines incl. go lines the driver answers by shutting down, quit) and harness moves "
                "(release one held iteration, release all, sleep, barrier, close the input). So a command provably arrives while a "
                "search is pending, two analyses overlap (the old one still held while its successor runs), and quit/EOF happen "
                "with searches in flight - deterministically. A quarter of the scripts are ungated (real scheduling, GOMAXPROCS "
                "1..16). History invariant after every command (each is followed by isready/readyok): no panic anywhere (a panic "
                "kills the shard and the journaled script becomes the replay file); every isready answered within 20 s; at most "
                "one bestmove between a go and the next go; no bestmove while the CURRENT search is provably still held and no "
                "stop/timer could have ended it (such a line belongs to a superseded search); every bestmove legal in the position "
                "current at its go; on quit / end of input / a shutdown line the output closes within 20 s, and releasing every "
                "held search afterwards must not blow up. Non-trivial = distinct scripts in which a go, stop or isready arrived "
                "while a search was held, a held iteration was released singly, or shutdown happened with a search in flight; all "
                "ungated scripts with a go. evaluations = scripts. "
                "Odd clocks (fallen flags, one clock only, moves-to-go without clocks) and malformed position lines ending in a pseudo-legal-but-illegal, non-pseudo-legal or unparsable move (the driver must go on or shut down) are part of the scripts. The quick tier ends with a short pass (a tenth of the scripts, other seeds) on the race-instrumented binary: a race report with a math/rand.(*Rand) frame is a violation (the thorough tier runs entirely on that binary). "
                "Ungated scripts with a move-time go end with a goroutine census: 400 ms after shutdown no goroutine may be inside the driver package (gated scripts are exempt: a search may still be waiting for the harness's own gate). "
                "Malformed position lines also include FENs that have lost fields (0-5 of 6 left), with or without a move list.",
        "assumptions": COMMON_ASSUMPTIONS + ["the Go scheduler between gates is not owned by the harness", "race-detector reports in these runs are recorded as diagnostics (C17 is where race freedom is demanded), with one exception: concurrent use of a single math/rand.Rand, which is documented as unsafe and panics (index out of range) under contention - a crash waiting for its schedule - is a violation",
                                             "lines the driver answers by a deliberate shutdown (unparsable go arguments) end the script: clean closure is required"],
        "level_text": "Exploration with a harness-owned schedule for the orderings that matter (search completion vs command "
                      "processing vs shutdown), ~2.4k scripts per quick run, plus ungated scripts for scheduler noise; thorough "
                      "runs the race-instrumented binary.",
        "level_note": "Trusted: gate wrapper and launch-order attribution of gate events (harness waits for each analysis' first call before sending further commands).",
        "technique": "stateful property-based testing (rapid) with an injected gated search (harness-owned schedule), history invariant after every step",
    },
    "C17": {
        "title": "transposition table under concurrent use",
        "run": "^TestC17_",
        "level": "exploration",
        "race": True,
        "race_is_violation": True,
        "race_filter": "transposition.go",
        "shards": 8,
        "gomaxprocs": [16, 4, 2, 16, 8, 16, 3, 16],
        "timeout": 900,
        "thorough_scale": 8,
        "thorough_timeout": 3000,
        "rule": "C17/concurrent (race-instrumented binary): generated programs for 2-16 goroutines over 1-6 hashes that collide in "
                "1-4 slots of real tables with 1, 2, 4, 8, 64 and 32768 slots; operations Write (payload = tagged function of "
                "(writer, sequence number, hash) over bound, depth, score, from, to, promotion; drawn depth and ply drive the "
                "replacement value), Read, Used; each program runs 1-8 times on fresh tables; most programs add a monitor goroutine "
                "per slot. Oracle: every successful Read(h) returns a tuple that ONE store for h wrote (tag lookup: no mixture, no "
                "foreign hash); per slot the replacement value seen by its monitor never decreases; after all goroutines joined "
                "Used() is in [0,1] and Used() x slots equals the number of distinct slots with an accepted store; and the race "
                "detector reports nothing with a frame in transposition.go. C17/sequential: single-goroutine programs against an "
                "exact model of the replacement policy (accept iff resident value <= new value), Read and Used. Non-trivial = "
                "distinct programs in which at least two goroutines write the same hash AND two write different hashes of one "
                "slot (concurrent); programs that leave an entry (sequential). evaluations = programs (x rounds). "
                "A fifth of the tagged stores carry no move (what the searches store for leaves and quiescence results). "
                "The key pool contains the hash 0 and keys that differ only above bit 31 or in bit 63.",
        "assumptions": COMMON_ASSUMPTIONS + ["the interleaving is not owned by the harness (stress + race detector + history invariants); a yield hook inside the CAS loop was deliberately not added",
                                             "table sizes >= 32 bytes"],
        "level_text": "Stress exploration under the race detector: ~6k concurrent programs x up to 8 rounds per quick run with "
                      "tagged payloads and per-slot monitors, plus 20k sequential programs against an exact model.",
        "level_note": "Trusted: tag function and the sequential model in c17_test.go; Go race detector.",
        "technique": "property-based generation of concurrent programs (rapid) + race detector + history invariants over tagged payloads; sequential model-based check",
    },
    "C20": {
        "title": "historical engines",
        "run": "^TestC20_",
        "level": "exploration",
        "shards": 16,
        "timeout": 600,
        "thorough_scale": 10,
        "thorough_timeout": 2400,
        "rule": "C20/engines: boards with short histories (generated games, synthetic odd-material positions, K+pieces v K endings; "
                "the heuristics read last moves, castled flags and the move number) x branch limits 0..10 x material factors 1..100. "
                "Oracle: eval.Material, TUROCHAMP material and evaluation, BERNSTEIN evaluation and SARGON points (after its per-search "
                "reset; at the root and after a third of the legal moves) are finite numbers (no NaN/Inf/panic); Material, TUROCHAMP "
                "and BERNSTEIN give exactly the same value on the game and on the whole game mirrored (ranks flipped, colours, rights, "
                "e.p. and every move mirrored); FindPlausibleMoves returns a duplicate-free subset of the oracle's legal moves, non-"
                "empty when a legal move exists, and through PlausibleMoveTable{Limit}.Explore at most Limit and at least one; "
                "SkipUnderPromotions keeps a legal move when one exists and no under-promotion; IsConsiderableMove (called on the "
                "board after the move, as the search does) is total on every legal move, accepts mates and rejects quiet non-mating "
                "moves. C20/books: every reply of the SARGON and BERNSTEIN books for the initial position, its 20 successors and "
                "their successors is legal in the position it is keyed on; engine.NewBook over generated legal opening lines (incl. "
                "transposing lines) offers the line move and only legal moves at every position of every line, and refuses a line "
                "whose last move is illegal. Non-trivial = distinct boards with bare king / in check / castling or promotion "
                "available / no legal move / a history; book cases with at least one position. evaluations = cases. "
                "C20/books: lines ending in an en-passant capture; every book position with an en-passant target is also looked up as its twin without the target - replies must be legal where they are offered. C20/engines evaluates QueenStar positions (a queen with open lines ending on enemy men) and many-move boards. "
                "C20/parallel: 2-8 goroutines evaluate different games with the four evaluators 40 times each at the same time; every value must equal the value computed alone. A book returned together with the refusal of a bad line must not offer an illegal reply.",
        "assumptions": COMMON_ASSUMPTIONS + ["colour symmetry is judged with exact equality (the three evaluations are quantised)"],
        "level_text": "Exploration: ~6k boards with histories per quick run through every evaluator and filter of the three "
                      "historical engines, a metamorphic mirror relation for colour-blindness, and ~3k generated opening books.",
        "level_note": "Trusted: harness/oracle legality and mirroring.",
        "technique": "property-based testing (rapid): totality + metamorphic (mirror) relation + legality oracle for filters and books",
    },
}

# Properties not claimed, with the reason (kept current).
NOT_APPLICABLE = {}
