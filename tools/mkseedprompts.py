#!/usr/bin/env python3
"""Writes the prompt files handed to the seed-writing sub-agents: tools/mkseedprompts.py <round-tag> <outdir> <id>...
Each agent gets only the text of one property, a scratch worktree /tmp/w<tag>-<id>, and the titles of earlier seeds."""
import json, glob, os, sys
tag, outdir, ids = sys.argv[1], sys.argv[2], sys.argv[3:]
ROOT = os.path.dirname(os.path.dirname(os.path.abspath(__file__)))
tmpl = '''You are helping to evaluate a verification harness for a Go chess engine (herohde/morlock). You have your own scratch git worktree of the repository at {wt} (Go 1.23, sandbox is OFFLINE; before any go command run: export GOFLAGS=-mod=mod GOPROXY=off GOSUMDB=off GOTOOLCHAIN=local). Work ONLY inside {wt}. Do NOT read or touch /verif or /repo, and do not commit anything.

This is the semantic property the repository is supposed to satisfy (id {pid}, "{title}"):

  {statement}

  Quantified over: {quant}

  Code it is anchored in: {files}

YOUR TASK: produce a realistic change to the NON-TEST source code in the worktree that BREAKS this property, while
  (a) the code still compiles (go build ./...), and
  (b) the existing test suite still passes: go test -vet=off -count=1 ./cmd/... ./pkg/...   (takes ~15 s)
The change should look like something a developer could plausibly introduce (refactoring slip, off-by-one, wrong constant or mask, a missed case, a dropped or misplaced synchronisation / check, a stale cache, two sites that each look fine alone). IMPORTANT: prefer changes that need something SPECIFIC to manifest - a particular interleaving or timing, a fault or halt at a particular point, a multi-step sequence of operations, an unusual input or corner of the board, or two cooperating sites - NOT ones that ordinary use would expose at once (e.g. do not simply break every move or every search).

Also provide a DEMONSTRATION: a Go test file placed in the worktree (e.g. next to the package, named zz_seed_demo_test.go) or a small Go program, that FAILS with your change applied and PASSES on the unchanged code. Verify both directions yourself (git diff > patch; git checkout; run; git apply patch; run). Do not use git stash.

DELIVERABLES, in {wt}/SEED/1/ (and, if you have time for a second, clearly different mutant, {wt}/SEED/2/):
  - patch.diff : output of `git diff` for the SOURCE change only (must apply with `git apply` on a clean checkout; do not include the demo test in it)
  - the demonstration file(s), plus demo_cmd.txt with the exact command that runs it from the worktree root, of the form `cp SEED/<n>/<file> <target path> && go test ...` (the demo file must be named zz_seed_demo*_test.go at its target)
  - NOTES.md : first line a one-line title of the change; then what the change is, why it breaks the property, what exactly it needs in order to manifest, and the outputs you observed (baseline tests passing with the change; demo failing with / passing without).
Add a file SEED/go.mod containing "module seed". Leave the worktree's source files in the UNCHANGED state at the end (git checkout the sources; keep SEED/ as untracked files). Your final answer should be a 5-10 line summary of each mutant (what, where, what it needs to manifest).'''
tried = {}
for d in sorted(glob.glob(os.path.join(ROOT, "seeded", "S*-C*"))):
    pid = os.path.basename(d).split("-")[1]
    for l in open(os.path.join(d, "NOTES.md")):
        l = l.strip("# ").strip()
        if len(l) > 20:
            tried.setdefault(pid, []).append(l[:160])
            break
os.makedirs(outdir, exist_ok=True)
for l in open(os.path.join(ROOT, "properties.jsonl")):
    p = json.loads(l)
    if p["id"] not in ids:
        continue
    base = tmpl.format(wt="/tmp/w%s-%s" % (tag, p["id"]), pid=p["id"], title=p["title"], statement=p["statement"],
                       quant=p["quantifier"]["text"], files=", ".join(p["anchors"]["files"]))
    extra = ("\n\nADDITIONAL CONSTRAINTS FOR THIS ROUND: other engineers have already produced the following changes for this property; do NOT repeat them or close variants, and prefer a different function, file or mechanism:\n"
             + "\n".join("  - " + t for t in tried.get(p["id"], []))
             + "\nAim for changes that are SUBTLE and HARD TO DETECT by randomized testing and by model-based / differential testing against a reference implementation of chess: think about what such a test harness would plausibly NOT generate or NOT compare (unusual but legal orderings of calls, option combinations, state that goes wrong only on the second or third use, rarely used API entry points of the anchored files, interactions between two features, values at the edge of a type, concurrency). The anchored files are a starting point; any non-test file of the repository may be changed as long as the stated property is what breaks. Produce two mutants (SEED/1 and SEED/2) if you can.")
    open(os.path.join(outdir, p["id"] + ".txt"), "w").write(base + extra)
print(sorted(os.listdir(outdir)))
