#!/bin/bash
cd /verif
m() { tools/mutant.sh "$@"; }
m /verif/seeded/R19-window-shift/patch.diff C03 C13
m /verif/seeded/R11-hit-no-pv/patch.diff C11 C04
m /verif/seeded/R12-inexact-stored-exact/patch.diff C11
m /verif/seeded/R13-stores-while-unwinding/patch.diff C12
m /verif/seeded/R10-drawn-root-no-pv/patch.diff C04
m REVERT:785a40d C10
m REVERT:0b29b37 C04
m REVERT:ba928cb C16 C04
m REVERT:646c9fa C17
for s in C01-1 C01-2 C02-1 C02-2 C03-1 C03-2 C04-1 C04-2 C05-1 C05-2 C06-1 C06-2 C07-1 C07-2 C08-1 C08-2 C09-1 C09-2 C10-1 C10-2; do
  p=${s%%-*}
  m /verif/seeded/S-$s/patch.diff $p
done
