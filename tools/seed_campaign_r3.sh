#!/bin/bash
cd /verif
for d in /verif/seeded/S3-C*; do
  s=$(basename $d); p=${s#S3-}; p=${p%%-*}
  grep -q "$s/patch.diff" /verif/.build/r3-first-contact.log 2>/dev/null && continue
  tools/mutant.sh $d/patch.diff $p
done
