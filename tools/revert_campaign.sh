#!/bin/bash
# Sensitivity baseline: revert each fix commit (one at a time) and require the generated
# search (regression witnesses disabled) of the affected checks to find it again.
cd /verif
run() { tools/mutant.sh "REVERT:$1" "${@:2}"; }
run ab147ee C09 C03 C13
run 840349e C02 C01
run 07467a3 C07
run 311a416 C05
run c074695 C05 C14
run a7bc8a1 C05
run 6fcbf14 C19
run db3004f C03 C13
run 42686ba C11 C04
run db2c048 C11
run 431d885 C12
run 785a40d C10
run 0b29b37 C04
run 208a1c0 C04
run ba928cb C16 C04
run 646c9fa C17
