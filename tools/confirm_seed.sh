#!/bin/bash
# usage: tools/confirm_seed.sh <worktree> <n> <name>   -> confirms a sub-agent's mutant in ITS scratch worktree and
# copies it to /verif/seeded/<name>/ (patch.diff, demo, NOTES.md, meta.json). Never touches /repo.
wt=$1; n=$2; name=$3
export GOFLAGS=-mod=mod GOPROXY=off GOSUMDB=off GOTOOLCHAIN=local
cd $wt || exit 1
d=SEED/$n
git checkout -q -- . ; find pkg cmd -name 'zz_seed_demo*' -delete
rundemo() {
  grep -oE 'cp SEED/[^ ]+ [^ )&]+' $d/demo_cmd.txt | head -1 | bash
  tgt=$(grep -oE 'cp SEED/[^ ]+ [^ )&]+' $d/demo_cmd.txt | head -1 | awk '{print $3}')
  if [ -d "$tgt" ]; then :; fi
  cmd=$(grep -E 'go (test|run) ' $d/demo_cmd.txt | grep -v '^#' | head -1 | sed 's/.*&& *\(go test\)/\1/')
  bash -c "$cmd" > /tmp/seed_demo_out.txt 2>&1; rc=$?
  find pkg cmd -name 'zz_seed_demo*' -delete
  return $rc
}
rundemo; clean_rc=$?
if ! git apply $d/patch.diff; then echo "$name: PATCH DOES NOT APPLY"; exit 2; fi
go build ./... > /tmp/seed_build.txt 2>&1; build_rc=$?
go test -vet=off -count=1 ./cmd/... ./pkg/... > /tmp/seed_suite.txt 2>&1; suite_rc=$?
rundemo; mut_rc=$?
git checkout -q -- .
rm -f /tmp/*.test.* /tmp/*.INFO 2>/dev/null
echo "$name: demo-clean rc=$clean_rc build rc=$build_rc suite rc=$suite_rc demo-mutant rc=$mut_rc"
if [ $clean_rc -eq 0 ] && [ $build_rc -eq 0 ] && [ $suite_rc -eq 0 ] && [ $mut_rc -ne 0 ]; then
  mkdir -p /verif/seeded/$name
  cp $d/patch.diff $d/NOTES.md $d/demo_cmd.txt /verif/seeded/$name/ 2>/dev/null
  for f in $d/*.go $d/*.go.txt; do [ -f "$f" ] && cp "$f" /verif/seeded/$name/$(basename "$f").txt; done
  echo CONFIRMED
else
  echo "NOT CONFIRMED"; tail -5 /tmp/seed_demo_out.txt
fi
