#!/bin/bash
# Final catch matrix: every seeded mutant against its own property's quick check (generated search only,
# regression witnesses disabled), and the reverts of every fix commit.
cd /verif
m() { tools/mutant.sh "$@"; }
m REVERT:ab147ee C09 C03 C13
m REVERT:840349e C02 C01
m REVERT:07467a3 C07
m REVERT:311a416 C05
m REVERT:c074695 C05 C14
m REVERT:a7bc8a1 C05
m REVERT:6fcbf14 C19
m /verif/seeded/R19-window-shift/patch.diff C03 C13
m /verif/seeded/R11-hit-no-pv/patch.diff C11 C04
m /verif/seeded/R12-inexact-stored-exact/patch.diff C11
m /verif/seeded/R13-stores-while-unwinding/patch.diff C12 C11
m /verif/seeded/R10-drawn-root-no-pv/patch.diff C04 C03
m REVERT:785a40d C10
m REVERT:0b29b37 C04 C16
m REVERT:ba928cb C16 C04
m REVERT:646c9fa C17
for d in /verif/seeded/S-C*; do
  s=$(basename $d); p=${s#S-}; p=${p%%-*}
  extra=""
  case $s in
    S-C01-1) extra="C02";; S-C02-1|S-C02-2) extra="C01";; S-C03-1) extra="C13";; S-C03-2) extra="C13";;
    S-C04-1) extra="C15 C16";; S-C04-2) extra="C03";; S-C05-1) extra="C08";; S-C05-2) extra="C14";;
    S-C06-1) extra="C02";; S-C08-1) extra="C18";; S-C08-2) extra="C05";; S-C11-1) extra="C12";;
    S-C12-1) extra="C03";; S-C12-2) extra="C11";; S-C13-1) extra="C03";; S-C13-2) extra="C03";;
    S-C14-1) extra="C05";; S-C14-2) extra="C08";; S-C15-1) extra="C04 C16";; S-C18-1) extra="C08";;
  esac
  m $d/patch.diff $p $extra
done
# round 2
for d in /verif/seeded/S2-C*; do
  s=$(basename $d); p=${s#S2-}; p=${p%%-*}
  extra=""
  case $s in
    S2-C03-1) extra="C11";; S2-C03-2) extra="C11";; S2-C13-1) extra="C11";; S2-C13-2) extra="C11";;
    S2-C05-1) extra="C08";; S2-C08-2) extra="C05";; S2-C14-2) extra="C02";; S2-C19-2) extra="C08";;
    S2-C01-1) extra="C02";; S2-C12-1) extra="C08";;
  esac
  m $d/patch.diff $p $extra
done
# round 3
for d in /verif/seeded/S3-C*; do
  s=$(basename $d); p=${s#S3-}; p=${p%%-*}
  extra=""
  case $s in
    S3-C02-1) extra="C14 C19 C10";; S3-C02-2) extra="C06";; S3-C04-2) extra="C20";; S3-C06-2) extra="C18";;
    S3-C05-1) extra="C08";; S3-C10-1) extra="C16";; S3-C11-2) extra="C18";; S3-C12-2) extra="C15";; S3-C15-2) extra="C04";;
  esac
  m $d/patch.diff $p $extra
done
m REVERT:60d0e05 C16 C18
# round 4
for d in /verif/seeded/S4-C*; do
  s=$(basename $d); p=${s#S4-}; p=${p%%-*}
  extra=""
  case $s in
    S4-C01-1) extra="C06 C18";; S4-C03-2) extra="C12";; S4-C07-1) extra="C08";; S4-C13-1) extra="C11";; S4-C03-1) extra="C13";; S4-C13-2) extra="C03";;
    S4-C08-1) extra="C19";; S4-C17-1) extra="C11";;
  esac
  m $d/patch.diff $p $extra
done
# round 5
for d in /verif/seeded/S5-C*; do
  s=$(basename $d); p=${s#S5-}; p=${p%%-*}
  extra=""
  case $s in
    S5-C11-1|S5-C11-2) extra="C17";; S5-C12-2) extra="C15";; S5-C13-2) extra="C12";; S5-C18-2) extra="C12";; S5-C15-2) extra="C04";;
    S5-C01-1) extra="C06";; S5-C02-2) extra="C01";; S5-C06-2) extra="C02";; S5-C19-2) extra="C14";; S5-C03-2) extra="C11";; S5-C04-1) extra="C15";;
  esac
  m $d/patch.diff $p $extra
done
m REVERT:6b18328 C15 C16
# round 6
for d in /verif/seeded/S6-C*; do
  s=$(basename $d); p=${s#S6-}; p=${p%%-*}
  extra=""
  case $s in
    S6-C02-1) extra="C08";; S6-C03-1) extra="C18";; S6-C04-1) extra="C10";; S6-C13-2) extra="C18";; S6-C19-1) extra="C14";; S6-C19-2) extra="C10";; S6-C04-2) extra="C16";;
  esac
  m $d/patch.diff $p $extra
done
# round 7
for d in /verif/seeded/S7-C*; do
  s=$(basename $d); p=${s#S7-}; p=${p%%-*}
  extra=""
  case $s in
    S7-C01-2) extra="C19 C02";; S7-C01-1) extra="C02";; S7-C11-2) extra="C07";;
  esac
  m $d/patch.diff $p $extra
done
# round 8
for d in /verif/seeded/S8-C*; do
  s=$(basename $d); p=${s#S8-}; p=${p%%-*}
  extra=""
  case $s in
    S8-C03-1) extra="C12";;
  esac
  m $d/patch.diff $p $extra
done
# round 9
for d in /verif/seeded/S9-C*; do
  s=$(basename $d); p=${s#S9-}; p=${p%%-*}
  m $d/patch.diff $p
done
