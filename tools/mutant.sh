#!/bin/bash
# usage: tools/mutant.sh <patch.diff|REVERT:<commit>> <prop> [<prop>...]
# Applies a change to /repo's working tree, runs the quick tier of the given checks, and
# ALWAYS restores /repo afterwards. Prints one line per check: CAUGHT / MISSED / INCONCLUSIVE.
set -u
patch="$1"; shift
cd /verif
if ! git -C /repo diff --quiet; then echo "refusing: /repo working tree is dirty"; exit 3; fi
restore() { git -C /repo reset -q; git -C /repo checkout -q -- . ; git -C /repo clean -fdq -- pkg cmd 2>/dev/null; }
trap restore EXIT
if [[ "$patch" == REVERT:* ]]; then
  c="${patch#REVERT:}"
  if ! git -C /repo diff "$c^" "$c" | git -C /repo apply -R 2>/tmp/mutant.err; then echo "APPLY-FAILED $patch: $(head -2 /tmp/mutant.err)"; exit 4; fi
else
  if ! git -C /repo apply "$patch" 2>/tmp/mutant.err; then echo "APPLY-FAILED $patch: $(head -2 /tmp/mutant.err)"; exit 4; fi
fi
if ! (cd /repo && GOFLAGS=-mod=mod GOPROXY=off GOSUMDB=off GOTOOLCHAIN=local go build ./... 2>/tmp/mutant.err); then echo "BUILD-FAILED $patch"; head -5 /tmp/mutant.err; exit 5; fi
for p in "$@"; do
  start=$(date +%s)
  out=$(VERIF_NO_REGRESS=1 VERIF_EVIDENCE_DIR=/verif/.build/mutant-evidence ./check "$p" --tier quick 2>&1); rc=$?
  dur=$(( $(date +%s) - start ))
  first=$(echo "$out" | grep -m1 'VIOLATION-DETAIL\|panic:' | cut -c1-260)
  case $rc in
    1) echo "CAUGHT $p (${dur}s) $patch :: $first";;
    0) echo "MISSED $p (${dur}s) $patch";;
    *) echo "INCONCLUSIVE $p rc=$rc (${dur}s) $patch :: $(echo "$out" | tail -3 | tr '\n' ' ' | cut -c1-200)";;
  esac
done
