#!/bin/bash
cd /verif
m() { tools/mutant.sh "$@"; }
for s in C11-1 C11-2 C12-1 C12-2 C13-1 C13-2 C14-1 C14-2 C15-2 C17-1 C17-2 C18-1 C18-2 C19-1 C19-2 C20-1 C20-2; do
  p=${s%%-*}
  m /verif/seeded/S-$s/patch.diff $p
done
