#!/usr/bin/env python3
"""Builds seeded/<id>/meta.json and the catch matrix from a campaign log (tools/full_campaign.sh)."""
import json, os, re, sys, glob
ROOT = os.path.dirname(os.path.dirname(os.path.abspath(__file__)))
log = sys.argv[1] if len(sys.argv) > 1 else os.path.join(ROOT, ".build", "full-campaign.log")
rows = []
for line in open(log):
    m = re.match(r"(CAUGHT|MISSED|INCONCLUSIVE) (C\d+)(?: rc=\d+)? \((\d+)s\) (\S+)(?: :: (.*))?", line.strip())
    if m:
        rows.append({"result": m.group(1), "check": m.group(2), "seconds": int(m.group(3)), "mutant": m.group(4), "first": (m.group(5) or "")[:300]})
by = {}
for r in rows:
    key = r["mutant"]
    if key.startswith("/verif/seeded/"):
        key = key.split("/")[3]
    by.setdefault(key, []).append(r)

revert_props = {"R19-window-shift": ("C03", "db3004f"), "R11-hit-no-pv": ("C11", "42686ba"), "R12-inexact-stored-exact": ("C11", "db2c048"),
                "R13-stores-while-unwinding": ("C12", "431d885"), "R10-drawn-root-no-pv": ("C04", "208a1c0")}
for d in sorted(x for x in glob.glob(os.path.join(ROOT, "seeded", "*")) if os.path.isdir(x)):
    name = os.path.basename(d)
    notes = ""
    np = os.path.join(d, "NOTES.md")
    if os.path.exists(np):
        notes = open(np).read()
    if name.startswith("S-") or name.startswith("S2-") or name.startswith("S3-") or name.startswith("S4-") or name.startswith("S5-") or name.startswith("S6-") or name.startswith("S7-") or name.startswith("S8-") or name.startswith("S9-"):
        prop = name.split("-")[1]
        origin = "fresh sub-agent, given only the text of property %s and its own scratch worktree of /repo under /tmp (nothing from /verif)" % prop
        if name.startswith("S2-"):
            origin += "; second round: additionally told which changes the first round had produced for this property (titles only) and asked for different, subtler ones"
        if name.startswith("S3-") or name.startswith("S4-") or name.startswith("S5-") or name.startswith("S6-") or name.startswith("S7-") or name.startswith("S8-") or name.startswith("S9-"):
            origin += "; third round: told the titles of the changes of rounds 1 and 2 for this property and asked for one that needs a specific multi-step or multi-site condition (two sites that each look fine alone, a second use of some state, a particular configuration or schedule)"
        confirmed = "tools/confirm_seed.sh in the agent's scratch worktree: demo passes on the unchanged tree; patch applies with git apply; go build ./... ok; baseline suite (go test -vet=off -count=1 ./cmd/... ./pkg/...) passes with the patch; demo fails with the patch"
    else:
        prop, commit = revert_props.get(name, ("?", "?"))
        origin = "hand-made revert of fix commit %s (its hunks overlap with later fixes, so git apply -R does not work)" % commit
        confirmed = "patch applies to /repo HEAD and builds; the corresponding defect is described in DESIGN.md section 8"
    needs = [l.strip("-* ").strip() for l in notes.splitlines() if re.search(r"need|manifest|require", l, re.I)][:6]
    if needs and all(len(x) < 40 for x in needs):
        # the notes use a heading ("What it needs to manifest") followed by the text: take what follows it
        ls = notes.splitlines()
        for i, l in enumerate(ls):
            if re.search(r"need|manifest|require", l, re.I):
                needs = [x.strip("-* ").strip() for x in ls[i + 1:i + 12] if x.strip() and not x.startswith("#")][:6]
                break
    first_contact = {"S9-C15-2": "C15 MISSED (27s)", "S9-C16-2": "C16 MISSED (84s)", "S9-C18-1": "C18 MISSED (11s)", "S9-C13-1": "C13 MISSED (18s), C11 MISSED (25s)"}.get(name)
    meta = {
        "id": name, "breaks_property": prop, "origin": origin,
        "what_it_needs_to_manifest": needs or ["see NOTES.md"],
        "confirmed": confirmed,
        **({"first_contact_before_strengthening": first_contact + " - see DESIGN.md section 10, round 9"} if first_contact else {}),
        "checks_run": [{"check": r["check"], "tier": "quick (generated search only, regression witnesses disabled)", "result": r["result"], "seconds": r["seconds"], "first_violation": r["first"]} for r in by.get(name, [])],
    }
    json.dump(meta, open(os.path.join(d, "meta.json"), "w"), indent=1)

# matrix
out = ["| mutant | breaks | what it is | own check | other checks |", "|---|---|---|---|---|"]
def short(name):
    np = os.path.join(ROOT, "seeded", name, "NOTES.md")
    if os.path.exists(np):
        for l in open(np):
            l = l.strip("# ").strip()
            if len(l) > 20:
                return l[:110]
    return ""
for key in sorted(by):
    rs = by[key]
    if key.startswith("REVERT:"):
        prop, what = rs[0]["check"], "revert of fix " + key[7:]
    elif key.startswith("R"):
        prop, what = revert_props[key][0], "revert of fix " + revert_props[key][1]
    else:
        prop, what = key.split("-")[1], short(key)
    own = [r for r in rs if r["check"] == prop]
    oth = [r for r in rs if r["check"] != prop]
    f = lambda r: "%s %s (%ds)" % (r["check"], r["result"].lower(), r["seconds"])
    out.append("| %s | %s | %s | %s | %s |" % (key, prop, what.replace("|", "/"), ", ".join(f(r) for r in own) or "-", ", ".join(f(r) for r in oth) or "-"))
open(os.path.join(ROOT, ".build", "catch-matrix.md"), "w").write("\n".join(out) + "\n")
def ownprop(k):
    if k.startswith("REVERT:"):
        return by[k][0]["check"]
    if k in revert_props:
        return revert_props[k][0]
    return k.split("-")[1]
caught = sum(1 for k in by if any(r["result"] == "CAUGHT" and r["check"] == ownprop(k) for r in by[k]))
anycaught = sum(1 for k in by if any(r["result"] == "CAUGHT" for r in by[k]))
print("caught by any listed check: %d" % anycaught)
print("mutants: %d, caught by own check: %d" % (len(by), caught))
