#!/usr/bin/env python3
"""Regenerates MANIFEST.json from checkdefs.py (single source of truth) and validates it."""
import json, os, sys
ROOT = os.path.dirname(os.path.abspath(__file__))
sys.path.insert(0, ROOT)
from checkdefs import PROPS, NOT_APPLICABLE

ids = [json.loads(l)["id"] for l in open(os.path.join(ROOT, "properties.jsonl"))]
checks = []
for pid in ids:
    if pid not in PROPS:
        continue
    d = PROPS[pid]
    checks.append({
        "property_id": pid,
        "quick_cmd": "./check %s --tier quick" % pid,
        "thorough_cmd": "./check %s --tier thorough" % pid,
        "evidence_file": "/verif/evidence/%s.json" % pid,
        "replay_cmd_template": "./check %s --replay {path}" % pid,
        "engine": "rapid-harness",
        "level_claimed": {"category": d["level"], "text": d["level_text"], "design_ref": d.get("design_ref", "DESIGN.md section 4, " + pid)},
        "level_note": d["level_note"],
        "technique": d["technique"],
    })
na = [{"property_id": p, "reason": NOT_APPLICABLE.get(p, "check not built yet (work in progress); no claim is made")} for p in ids if p not in PROPS]
m = {
    "version": 1,
    "setup_cmd": "./check --setup",
    "hooks": {
        "guard": "verif",
        "enable": "no source hooks are needed: every observation point is reached through exported API or injection (search.Search, eval.Evaluator, search.TranspositionTable, context.Context); checks build /repo's working tree as is via a go.mod replace",
        "baseline_off_cmd": "cd /repo && GOFLAGS=-mod=mod GOPROXY=off GOSUMDB=off GOTOOLCHAIN=local go test -vet=off -count=1 ./...",
        "source_commits": [],
        "add_only": True,
    },
    "engines": [{
        "name": "rapid-harness", "path": "/verif/harness",
        "serves_properties": [c["property_id"] for c in checks],
        "kind_free_text": "Go property-based tests (pgregory.net/rapid v1.3.0, native go fuzzing in thorough tier) against an independent chess rules oracle and reference searches; python driver ./check shards, merges evidence and maps exit codes",
    }],
    "checks": checks,
    "not_applicable": na,
    "notes": "Exit codes: 0 held, 1 violation (VIOLATION line), 2 inconclusive (build/time/resource). VERIF_SEED selects the rapid seed. Fixed defects and known findings: known_findings.txt.",
}
json.dump(m, open(os.path.join(ROOT, "MANIFEST.json"), "w"), indent=1)
try:
    import jsonschema
    jsonschema.validate(m, json.load(open("/root/.vp/MANIFEST.schema.json")))
    print("MANIFEST.json valid; %d checks, %d not claimed" % (len(checks), len(na)))
except ImportError:
    print("MANIFEST.json written (jsonschema not available to validate)")
